package main

var engines = map[string]*engineSpec{}
var props = map[string]*propSpec{}
var propOrder []string

func addEngine(e *engineSpec) { engines[e.Name] = e }
func addProp(p *propSpec) {
	props[p.ID] = p
	propOrder = append(propOrder, p.ID)
}

func simkitFor(dir, pkg string) overlayFile {
	return overlayFile{Src: "simkit/simkit.go.txt", Dst: dir + "/zz_verif_simkit_test.go", Pkg: pkg}
}

func init() {
	// ------------------------------------------------------------------ SYNC (C08)
	addEngine(&engineSpec{
		Name:   "sync",
		PkgDir: "sync",
		Files: []overlayFile{
			simkitFor("sync", "sync"),
			{Src: "engines/sync/harness.go.txt", Dst: "sync/zz_verif_sync_test.go", Pkg: "sync"},
			{Src: "engines/sync/asm.go.txt", Dst: "sync/zz_verif_asm_test.go", Pkg: "sync"},
		},
		Instr: []instrSpec{{File: "sync/spinlock.go", Funcs: nil, Hooks: "sync/zz_verif_hooks.go", Pkg: "sync"}},
		Anchors: []string{"kernel/sync/spinlock.go", "kernel/sync/spinlock_amd64.s"},
		Real:    []string{"sync.Spinlock.Acquire (compiled assembly archAcquireSpinlock, mode A)", "sync.Spinlock.TryToAcquire", "sync.Spinlock.Release", "the yieldFn seam", "spinlock_amd64.s source text interpreted instruction by instruction (mode B)"},
		Stub:    []string{"CPUs = goroutine tasks holding a baton (mode A) / step tasks of an x86 subset interpreter (mode B)", "critical sections are harness code", "memory: sequentially consistent in modes A/S, x86-TSO store buffers in mode B"},
	})
	addProp(&propSpec{
		ID: "C08", Engine: "sync", Level: "exploration",
		Subs: []subCheck{
			{Name: "C08A", QuickRuns: 1000000000, QuickMs: 20000, ThoroughRuns: 1000000000, ThoroughMs: 480000},
			{Name: "C08S", QuickRuns: 1000000000, QuickMs: 20000, ThoroughRuns: 1000000000, ThoroughMs: 480000},
			{Name: "C08B", QuickRuns: 1000000000, QuickMs: 20000, ThoroughRuns: 1000000000, ThoroughMs: 480000},
		},
		Rule: "one evaluation = one simulated run: 2-16 tasks executing seeded programs of Acquire/TryToAcquire/critical-section/Release/Release-while-free under a seeded one-at-a-time scheduler (mode A: compiled code, preemption at the yieldFn seam, at inserted statement yields of spinlock.go and inside critical sections; mode B: the assembly source interpreted, preemption between any two instructions). Non-trivial = at least one contended acquisition (a task spun or a try-acquire failed while another task held the lock) and at least two tasks completed a critical section; distinct = distinct hash of (task count, context-switch sequence, operation outcomes).",
		Assume: []string{"modes A and S: sequentially consistent interleavings only; mode B: x86-TSO for the interpreted assembly - a plain store to the lock word stays in the CPU's store buffer (visible to that CPU only) until a locked instruction of that CPU or the memory system drains it; Go code of the lock (sync/atomic) counts as locked instructions", "mode B interprets the instruction subset used by spinlock_amd64.s (every TEXT symbol that a method of Spinlock merely wraps); an unknown instruction makes the check exit 2, never pass", "the package's default yield function is never the one that runs (DESIGN.md section 11)"},
		Required: []string{"c08a.contended_acquire", "c08a.try_fail_while_held", "c08a.resume_free_acquired", "c08b.preempt_between_read_and_xchg", "c08b.xchg_lost_race"},
	})

	// ------------------------------------------------------------------ PMM sequential (C01 C02 C03)
	pmmFiles := []overlayFile{
		simkitFor("mm/pmm", "pmm"),
		{Src: "engines/pmm/machine.go.txt", Dst: "mm/pmm/zz_verif_machine_test.go", Pkg: "pmm"},
		{Src: "engines/pmm/seq.go.txt", Dst: "mm/pmm/zz_verif_seq_test.go", Pkg: "pmm"},
		{Src: "engines/shims/sync_shim.go.txt", Dst: "sync/zz_verif_shim.go", Pkg: "sync"},
		{Src: "engines/pmm/boot.go.txt", Dst: "mm/pmm/zz_verif_boot_test.go", Pkg: "pmm"},
		{Src: "engines/shims/vmm_machine_shim.go.txt", Dst: "mm/vmm/zz_verif_machine_shim.go", Pkg: "vmm"},
	}
	pmmAnchors := []string{"kernel/mm/pmm/bitmap_allocator.go", "kernel/mm/pmm/bootmem_allocator.go", "kernel/mm/pmm/pmm.go", "kernel/mm/page.go", "kernel/multiboot/multiboot.go", "kernel/sync/spinlock.go", "kernel/sync/spinlock_amd64.s"}
	pmmReal := []string{"multiboot.VisitMemRegions decoding a generated multiboot2 information block", "pmm.BootMemAllocator", "pmm.BitmapAllocator (init, AllocFrame, FreeFrame, accounting)", "pmm.Init", "sync.Spinlock incl. assembly", "mm.AllocFrame dispatch", "kfmt.Printf into a captured sink"}
	pmmStub := []string{"bootloader = block builder", "reserveRegionFn -> host arena (lazily committed)", "mapFn -> records page/frame, consumes 0-3 extra early frames like vmm.Map would, can fail"}
	addEngine(&engineSpec{Name: "pmm", PkgDir: "mm/pmm", Files: pmmFiles, Anchors: pmmAnchors, Real: pmmReal, Stub: pmmStub})
	addProp(&propSpec{
		ID: "C01", Engine: "pmm", Level: "exploration",
		Subs: []subCheck{
			{Name: "C01", QuickRuns: 1000000000, QuickMs: 20000, ThoroughRuns: 1000000000, ThoroughMs: 480000},
			{Name: "C01B", QuickRuns: 1000000000, QuickMs: 15000, ThoroughRuns: 1000000000, ThoroughMs: 360000, Note: "integrated boot: real PMM + real VMM on one simulated machine"},
		},
		Rule: "one evaluation = one simulated boot (generated memory map of 1-8 regions with word-boundary frame counts, unaligned edges, sub-page regions, non-available types; kernel placement at start/middle/end/covering; 0-3 extra early allocations per mapping) followed by a seeded history of AllocFrame/FreeFrame calls by 1-8 callers including drain-to-exhaustion phases; every returned frame is checked against the reference sets. Sub-check C01B is the INTEGRATED boot: the memory map describes the simulated physical memory of engine VMM, the real pmm.Init runs on the real vmm.EarlyReserveRegion/vmm.Map (software MMU), then the real vmm.Init builds the kernel address space from frames of the real bitmap allocator, copy-on-write faults are served by it, and finally the allocator is drained: every frame the VMM holds must come from the usable set exactly once and the drained set must be exactly usable minus held (conservation across both managers). Non-trivial = Init succeeded, >=3 allocations and >=1 free (C01) / the boot completed (C01B); distinct = hash of (memory map, kernel placement, operation counts).",
		Assume: []string{"callers free only frames they hold (the allocator does not know owners)", "sequential histories here; concurrent callers are C09"},
		Required: []string{"pmm.reached_oom", "pmm.drain_phase", "pmm.extra_early_alloc_in_map", "c01b.booted", "c01b.conservation_checked", "c01b.cow_served_by_bitmap_allocator", "c01b.vmm_init_oom"},
	})
	addProp(&propSpec{
		ID: "C02", Engine: "pmm", Level: "exploration",
		Subs: []subCheck{{Name: "C02", QuickRuns: 1000000000, QuickMs: 20000, ThoroughRuns: 1000000000, ThoroughMs: 480000}},
		Rule: "one evaluation = one generated memory map + kernel placement, early allocations until out-of-memory and 1-3 calls beyond, each checked (inside available RAM, outside kernel, strictly ascending, OOM contract), then a replay of n allocations from a reset state compared with the original sequence. Non-trivial = at least 2 frames were returned; distinct = hash of (memory map, kernel placement, number of frames).",
		Assume: []string{"memory maps are sorted and non-overlapping, the kernel image lies inside one available region with a page-aligned start (the property's quantifier)"},
		Required: []string{"c02.reached_oom", "c02.replay_checked"},
	})
	addProp(&propSpec{
		ID: "C03", Engine: "pmm", Level: "exploration",
		Subs: []subCheck{{Name: "C03", QuickRuns: 1000000000, QuickMs: 20000, ThoroughRuns: 1000000000, ThoroughMs: 480000}},
		Rule: "one evaluation = one simulated boot as in C01 (plus injected reservation/mapping failures and naturally occurring early-boot OOM) followed by a seeded history of allocate / free-own / bad-free (never-allocated, double, out-of-pool, reserved-region, beyond-RAM, invalid frame) calls, counters checked after every call, final drain must yield exactly the usable set. Non-trivial = Init succeeded, >=3 allocations and >=1 free or rejected free; distinct = hash of (memory map, kernel placement, operation counts).",
		Assume: []string{"frees of kernel-image or early-boot frames are outside the statement and never generated"},
		Required: []string{"c03.full_drain_checked", "c03.bad_free.double-free", "c03.bad_free.out-of-pool", "c03.init_oom", "c03.init_injected_failure_propagated", "c03.printed_stats_checked"},
	})

	// ------------------------------------------------------------------ PMM concurrent (C09)
	addEngine(&engineSpec{
		Name: "pmmc", PkgDir: "mm/pmm",
		Files: append(append([]overlayFile(nil), pmmFiles...),
			overlayFile{Src: "engines/pmm/conc.go.txt", Dst: "mm/pmm/zz_verif_conc_test.go", Pkg: "pmm"}),
		Instr: []instrSpec{{File: "mm/pmm/bitmap_allocator.go", Funcs: []string{"BitmapAllocator.AllocFrame", "BitmapAllocator.FreeFrame", "BitmapAllocator.markFrame", "BitmapAllocator.poolForFrame"}, Hooks: "mm/pmm/zz_verif_hooks.go", Pkg: "pmm"},
			// the Go part of the lock the allocator relies on, too: every function of spinlock.go
			{File: "sync/spinlock.go", Funcs: nil, Hooks: "sync/zz_verif_hooks.go", Pkg: "sync"}},
		Anchors: pmmAnchors,
		Real:    append(append([]string(nil), pmmReal...), "bitmap_allocator.go rebuilt from the current tree with a yield before every statement of AllocFrame/FreeFrame/markFrame/poolForFrame", "sync/spinlock.go rebuilt with a yield before every statement of every function", "contended acquirers reach the scheduler through the real assembly's call to yieldFn"),
		Stub:    append(append([]string(nil), pmmStub...), "CPUs = goroutine tasks holding a baton; one executes at a time"),
	})
	addProp(&propSpec{
		ID: "C09", Engine: "pmmc", Level: "exploration",
		Subs: []subCheck{{Name: "C09", QuickRuns: 1000000000, QuickMs: 20000, ThoroughRuns: 1000000000, ThoroughMs: 480000}},
		Rule: "one evaluation = one simulated boot with small pools followed by a concurrent phase of 2-16 tasks (mixed alloc/free-own/free-unmanaged, or a free storm where frames handed out beforehand are freed concurrently and freed a second time) under a seeded one-at-a-time scheduler that can preempt before every statement of the allocator. Checked during the run (ownership exclusivity, error contracts, exact blocks-forever detection), at quiescence (lock free, reserved/free totals, per-pool bitmap population, drain returns exactly the unheld usable frames) and over the history (linearizability against the frame-set model: inline Wing-Gong search on every run, porcupine on a sample). Non-trivial = at least two allocator calls overlapped and at least one contended lock acquisition; distinct = hash of (memory map, context-switch sequence, history length).",
		Assume:    []string{"sequentially consistent interleavings at statement granularity; true parallelism and the hardware memory model are not simulated", "callers free only frames they hold; ownership ends when FreeFrame is called"},
		Required:  []string{"c09.contended_acquire", "c09.preempt_point_inside_critical_section", "c09.oom_under_contention", "c09.double_free_under_contention", "c09.unmanaged_free_under_contention", "c09.free_storm_run", "c09.inline_linearizability_ok"},
		PostCheck: postC09,
	})

	// ------------------------------------------------------------------ VMM (C04 C05 C06 C07)
	vmmFiles := []overlayFile{
		simkitFor("mm/vmm", "vmm"),
		{Src: "engines/vmm/machine.go.txt", Dst: "mm/vmm/zz_verif_machine_test.go", Pkg: "vmm"},
		{Src: "engines/vmm/c04.go.txt", Dst: "mm/vmm/zz_verif_c04_test.go", Pkg: "vmm"},
		{Src: "engines/vmm/c07.go.txt", Dst: "mm/vmm/zz_verif_c07_test.go", Pkg: "vmm"},
		{Src: "engines/vmm/c05.go.txt", Dst: "mm/vmm/zz_verif_c05_test.go", Pkg: "vmm"},
		{Src: "engines/vmm/c06.go.txt", Dst: "mm/vmm/zz_verif_c06_test.go", Pkg: "vmm"},
	}
	vmmAnchors := []string{"kernel/mm/vmm/map.go", "kernel/mm/vmm/pdt.go", "kernel/mm/vmm/vmm.go", "kernel/mm/vmm/addr_space.go", "kernel/mm/vmm/fault_amd64.go", "kernel/mm/vmm/vmm_constants_amd64.go", "kernel/mm/page.go", "kernel/multiboot/multiboot.go"}
	vmmReal := []string{"vmm.Map/Unmap/Translate/MapRegion/IdentityMapRegion/MapTemporary", "PageDirectoryTable.Init/Map/Unmap/Activate", "walk/pteForAddress over the recursive mapping", "vmm.Init, setupPDTForKernel, reserveZeroedFrame, installFaultHandlers", "pageFaultHandler / generalProtectionFaultHandler as registered by the kernel", "EarlyReserveRegion", "multiboot.VisitElfSections decoding a generated ELF-sections tag"}
	vmmStub := []string{"physical memory = fixed-address mmap arena, frame = host address >> 12", "MMU address path = software walk from a simulated CR3 (ptePtrFn)", "nextAddrFn = table the just-written entry points to", "TLB = recorded invalidations", "frame allocator = seeded order, junk-filled frames, injectable failure", "data path of temporary mappings goes to the identity page of the frame (mapTemporaryFn/unmapFn shim around the real functions)", "the CPU raising page faults (harness)", "virtual window = second host arena for faulting pages"}
	addEngine(&engineSpec{Name: "vmm", PkgDir: "mm/vmm", Files: vmmFiles, Anchors: vmmAnchors, Real: vmmReal, Stub: vmmStub})
	addProp(&propSpec{
		ID: "C04", Engine: "vmm", Level: "fault_enumeration",
		Subs: []subCheck{
			{Name: "C04", QuickRuns: 1000000000, QuickMs: 20000, ThoroughRuns: 1000000000, ThoroughMs: 480000},
			{Name: "C04F", QuickRuns: 1000000000, QuickMs: 20000, ThoroughRuns: 1000000000, ThoroughMs: 480000},
			{Name: "C04T", QuickRuns: 1000000000, QuickMs: 8000, ThoroughRuns: 1000000000, ThoroughMs: 240000, Note: "extended mode: TLB retention"},
		},
		Rule: "C04: one evaluation = one seeded history (up to 40 operations: Map, Unmap, Translate, MapRegion, IdentityMapRegion, MapTemporary, pdt.Map/Unmap on active and inactive spaces, Activate, new address spaces through the real pdt.Init, planted huge-page entries) over a pool of pages built to share or not share every table level, with seeded allocation/temporary-mapping failures; after every operation an independent walker compares every present leaf of every address space with the page->entry model, checks new levels, TLB invalidations, bit-for-bit preservation of the active space for inactive-space operations and Translate. C04F: a short fault-free history is executed, then re-executed once per (operation j, allocation k) failing exactly that allocation (systematic fault enumeration). C04T: as C04 without injected failures but with a simulated TLB that retains recursive-window translations until invalidated or evicted (seeded eviction per operation); failures in which a retained translation was used are reported as C04/stale-tlb. Non-trivial = >= 4 operations and at least one mapping established or failure injected; distinct = hash of the operation sequence.",
		Assume:   []string{"C04/C04F: ideal MMU, no stale TLB entries (the TLB is an oracle input: which pages were invalidated); C04T: leaf translations of the recursive-mapping window may be retained; paging-structure caches are never modelled", "the data path of temporary mappings is shimmed (identity page of the frame)", "the arithmetic computing the next table's virtual address from the entry's virtual address is not exercised (nextAddrFn ignores its argument)"},
		Required: []string{"c04.new_levels_1", "c04.new_levels_2", "c04.new_levels_3", "c04.op_on_inactive_space", "c04.alloc_fail_in_map", "c04.alloc_fail_in_region", "c04.huge_page_error", "c04.new_space", "c04.activate", "c04.region_mapped", "c04f.fault_points_enumerated"},
	})
	addProp(&propSpec{
		ID: "C07", Engine: "vmm", Level: "exploration",
		Subs: []subCheck{{Name: "C07", QuickRuns: 1000000000, QuickMs: 20000, ThoroughRuns: 1000000000, ThoroughMs: 480000}, {Name: "C07I", QuickRuns: 1000000000, QuickMs: 10000, ThoroughRuns: 1000000000, ThoroughMs: 240000}},
		Rule: "C07I: reservations before and after the real vmm.Init on the simulated MMU (C05's boot stage plus reserved-but-unmapped regions): Init never moves the cursor up and every later reservation lies below all earlier ones. C07: one evaluation = one seeded history (up to 60 requests) of EarlyReserveRegion / MapRegion / IdentityMapRegion from five simulated boot-time subsystems, with sizes 0, 1, page+-1, many pages, everything-left, left+1, within a page of 2^64, and a large first reservation that brings the cursor close to exhaustion; the map seam records every (page, frame, flags) call and fails at a seeded call. Every grant is checked against all earlier grants; every refusal must leave the cursor where it was. Non-trivial = at least 3 requests; distinct = hash of (final cursor, request count, refusals).",
		Assume:   []string{"the map seam is a recorder here; region mapping through the real Map on the simulated MMU is part of C04", "a fitting request that is refused is counted (probe) but not reported: the statement only constrains successful reservations and non-fitting requests"},
		Required: []string{"c07.reserved_after_init", "c07.init_with_unmapped_reservation", "c07.init_succeeded_between_reservations", "c07.reserved", "c07.refused_not_fitting", "c07.mapregion_refused", "c07.region_checked", "c07.map_fail_propagated", "c07.size_near_2^64"},
	})
	addProp(&propSpec{
		ID: "C05", Engine: "vmm", Level: "exploration",
		Subs: []subCheck{{Name: "C05", QuickRuns: 1000000000, QuickMs: 20000, ThoroughRuns: 1000000000, ThoroughMs: 480000}},
		Rule: "one evaluation = one simulated boot stage: 0-6 early reservations made through the real EarlyReserveRegion and mapped with the real Map in the boot space, a generated ELF-sections tag (0-12 sections, in a quarter of the runs up to 64: sizes 1 byte to many pages, aligned or not, ending exactly on a page boundary or not, every W/A/X combination, sections below the kernel offset, empty and non-allocated sections) decoded by the real multiboot.VisitElfSections, then the real vmm.Init with optional allocation / temporary-mapping failure; afterwards ALL present leaves of the activated root are enumerated by an independent walker and must be exactly the section pages (right frame, W, X, never user) plus the reserved pages (same frame as in the boot space). Non-trivial = at least two section pages expected; distinct = hash of (sections, number of reserved pages).",
		Assume:   []string{"no two sections share a page (as the linker script lays them out)", "every early reservation was mapped before this stage (what the PMM does); reserved-but-unmapped pages are outside the statement", "flags of copied reservation pages are not compared (the statement speaks of their translations)"},
		Required: []string{"c05.sections_mapped", "c05.reservations_copied", "c05.unaligned_section", "c05.section_below_offset_ignored", "c05.init_failed_by_injection", "c05.more_than_16_sections_in_range"},
	})
	addProp(&propSpec{
		ID: "C06", Engine: "vmm", Level: "fault_enumeration",
		Subs: []subCheck{{Name: "C06", QuickRuns: 1000000000, QuickMs: 20000, ThoroughRuns: 1000000000, ThoroughMs: 480000}},
		Rule: "one evaluation = one simulated boot (real vmm.Init arms the guard) followed by a seeded history of (a) attempts to map the shared zero frame writable through every mapping entry point (Map, MapTemporary, MapRegion, IdentityMapRegion, pdt.Map on the active and on an inactive space) with every other flag mixed in, and (b) page faults raised by the harness-CPU through the handler the kernel registered for vector 14: consistent writes to copy-on-write pages over the zero frame and over ordinary frames with random contents, and arbitrary (address, error code, leaf flags, tampered upper-level entry) combinations, each with frame-allocation or temporary-mapping failure injected at each step of the handler. Return-vs-panic must match the rule; after recovery frame freshness, flags, contents, other mappings, TLB invalidation and the retried access are checked; the zero-frame invariant is checked after every step in every address space. Non-trivial = at least one recovered copy-on-write fault and one panicking fault; distinct = hash of (window pages, counts).",
		Assume:   []string{"page contents are compared through frames; the faulting page's bytes are loaded into a host window from the mapped frame before the fault is raised (data-path stub)", "a fault whose page cannot be backed by host memory is skipped when it would be recoverable"},
		Required: []string{"c06.cow_on_zero_frame_recovered", "c06.cow_on_ordinary_frame_recovered", "c06.failure_while_resolving_panics", "c06.other_fault_panics", "c06.upper_level_tamper_panics", "c06.gpf_panics", "c06.guard_refused.Map", "c06.guard_refused.MapTemporary", "c06.guard_refused.MapRegion", "c06.guard_refused.IdentityMapRegion", "c06.guard_refused.pdt.Map(inactive)", "c06.readonly_zero_mapping_ok"},
	})

	// ------------------------------------------------------------------ TREE (C13)
	addEngine(&engineSpec{
		Name: "tree", PkgDir: "device/acpi/aml",
		Files: []overlayFile{
			simkitFor("device/acpi/aml", "aml"),
			{Src: "engines/tree/harness.go.txt", Dst: "device/acpi/aml/zz_verif_tree_test.go", Pkg: "aml"},
		},
		Anchors: []string{"kernel/device/acpi/aml/obj_tree.go"},
		Real:    []string{"aml.ObjectTree: newObject, newNamedObject, append, appendAfter, detach, free, ObjectAt, Find, findRelative, NumArgs, ArgAt, CreateDefaultScopes"},
		Stub:    []string{"none (no hardware, no environment)"},
	})
	addProp(&propSpec{
		ID: "C13", Engine: "tree", Level: "exploration",
		Subs: []subCheck{{Name: "C13", QuickRuns: 1000000000, QuickMs: 20000, ThoroughRuns: 1000000000, ThoroughMs: 480000}},
		Rule: "one evaluation = one seeded history (up to 300 operations) of create (named from a 6-name alphabet so that shadowing is frequent, or unnamed) / append / insert-after / detach / re-attach of whole subtrees / free-leaf, interleaved with well-formed lookups (absolute, parent-prefixed, single- and multi-segment, with embedded dual/multi-name prefix bytes; half of them aimed at an existing object) and malformed lookups from every live scope; after every edit every link of the real tree is compared with the reference tree and freed-slot reuse is checked; every well-formed lookup is compared with the reference resolver. Degenerate one-party history: no schedule or fault dimension exists for this code. Non-trivial = at least 5 edits and 2 lookups; distinct = hash of (final tree shape and names, lookup count).",
		Assume:   []string{"sibling names are unique (ACPI scopes do not allow duplicates); for malformed expressions only no-crash and live-or-not-found is required", "callers of free pass leaves (the tree panics by design otherwise)"},
		Required: []string{"c13.freed_slot_reused", "c13.insert_in_the_middle", "c13.subtree_reattached", "c13.detach_last_child", "c13.detach_first_child", "c13.found_in_enclosing_scope", "c13.parent_prefixed_single_segment_not_found", "c13.malformed_lookup"},
	})

	// ------------------------------------------------------------------ ACPI (C14)
	addEngine(&engineSpec{
		Name: "acpi", PkgDir: "device/acpi",
		Files: []overlayFile{
			simkitFor("device/acpi", "acpi"),
			{Src: "engines/acpi/harness.go.txt", Dst: "device/acpi/zz_verif_acpi_test.go", Pkg: "acpi"},
		},
		Anchors: []string{"kernel/device/acpi/acpi.go", "kernel/device/acpi/table/tables.go"},
		Real:    []string{"acpi.probeForACPI, locateRSDT, validTable", "acpiDriver.DriverInit / enumerateTables / mapACPITable", "kfmt.Fprintf into the init log"},
		Stub:    []string{"firmware memory = host arena at a fixed address below 4 GiB holding a generated image (ACPI layout)", "mapFn / unmapFn / identityMapFn = recorders returning identity pages, refusing addresses outside the arena, failing at call k"},
	})
	addProp(&propSpec{
		ID: "C14", Engine: "acpi", Level: "fault_enumeration",
		Subs: []subCheck{{Name: "C14", QuickRuns: 1000000000, QuickMs: 20000, ThoroughRuns: 1000000000, ThoroughMs: 480000}},
		Rule: "one evaluation = one generated firmware image (root pointer of revision 0/1/2/3/255 at the first, last or any 16-byte slot of the search area with arbitrary bytes after it; RSDT and XSDT listing DIFFERENT table sets of 0-8 tables with random bodies of 36-5000 bytes crossing page boundaries; optional FADT with 32-bit, 64-bit or both DSDT pointers in the ACPI layout) plus a fault plan: single-byte corruption of a seeded subset of listed tables / FADT / DSDT / the root pointer, decoy root pointers with a bad checksum before and after the real one, identity-mapping failure at call k. The probe result, the selected root table, the registered signature set (must equal exactly the listed tables whose bytes sum to zero plus the DSDT of a valid FADT), the table pointers and the init log are checked. Non-trivial = at least 2 listed tables; distinct = hash of (signatures, lengths, corruption pattern, revision, pointer mode, slot).",
		Assume:   []string{"a valid extended root pointer has both checksums valid; decoys have a bad (extended) checksum", "the length field of a table is never corrupted (reading beyond firmware memory is outside the simulation)", "output order of the table summary is not compared (Go map iteration)"},
		Required: []string{"c14.no_valid_root_pointer", "c14.decoy_before_real_root_pointer", "c14.corrupted_table_reported_and_skipped", "c14.enumeration_continued_past_corrupted_table", "c14.map_failure_propagated", "c14.xsdt_followed", "c14.rsdt_followed", "c14.dsdt_registered_mode_1", "c14.corrupted_fadt_dsdt_not_followed", "c14.root_pointer_corrupted"},
	})

	// ------------------------------------------------------------------ TTY (C17 C18)
	ttyAnchors := []string{"kernel/device/tty/vt.go", "kernel/device/tty/device.go", "kernel/device/video/console/vga_text.go", "kernel/device/video/console/vesa_fb.go", "kernel/device/video/console/device.go"}
	addEngine(&engineSpec{
		Name: "tty", PkgDir: "device/tty",
		Files: []overlayFile{
			simkitFor("device/tty", "tty"),
			{Src: "engines/tty/harness.go.txt", Dst: "device/tty/zz_verif_tty_test.go", Pkg: "tty"},
			{Src: "engines/shims/console_shim.go.txt", Dst: "device/video/console/zz_verif_shim.go", Pkg: "console"},
		},
		Anchors: ttyAnchors,
		Real:    []string{"tty.VT (NewVT, AttachTo, Write, WriteByte, SetCursorPosition, SetState)", "console.VgaTextConsole on a host text buffer obtained through its real DriverInit", "console.VesaFbConsole 8/15/16/24/32 bpp with each shipped font, with and without the shipped logos, on a host framebuffer obtained through its real DriverInit"},
		Stub:    []string{"reference cell-grid console (asserts every call stays inside the grid)", "mapRegionFn -> host arena with inaccessible guard pages; portWriteByteFn -> no-op", "independent glyph/colour renderer used as the oracle for framebuffer pixels"},
	})
	addProp(&propSpec{
		ID: "C17", Engine: "tty", Level: "exploration",
		Subs: []subCheck{{Name: "C17", QuickRuns: 1000000000, QuickMs: 20000, ThoroughRuns: 1000000000, ThoroughMs: 480000}},
		Rule: "one evaluation = one seeded history (up to 120 operations from 1-4 writers: Write of chunks biased toward \\n \\r \\b \\t, printable runs long enough to wrap, bursts of line feeds that exhaust the scrollback, arbitrary bytes; WriteByte; SetCursorPosition with arbitrary 32-bit values; SetState) on a terminal attached to a reference console of geometry 1..132 x 1..50 (1xN, Nx1, 1x1 included), scrollback 0..100, tab width 0..8; after every operation the cursor, the WHOLE terminal buffer (scrollback included) and the viewport origin are compared with a reference terminal written from the statement; a panic (index outside the buffer) is a violation. Non-trivial = at least 5 operations with at least one wrap, viewport advance or scroll; distinct = hash of (geometry, final buffer sample, cursor).",
		Assume:   []string{"colours are always the console's defaults (the terminal has no API to change them)"},
		Required: []string{"tty.three_wraps", "tty.viewport_advanced_through_scrollback", "tty.buffer_scrolled", "tty.buffer_scrolled_with_scrollback", "tty.one_column_or_one_row", "tty.activation"},
	})
	addProp(&propSpec{
		ID: "C18", Engine: "tty", Level: "exploration",
		Subs: []subCheck{{Name: "C18", QuickRuns: 1000000000, QuickMs: 20000, ThoroughRuns: 1000000000, ThoroughMs: 480000}},
		Rule: "one evaluation = one seeded history as in C17 with activate/deactivate interleaved, on one of three consoles: the reference cell grid, the real text-mode console (any size) or the real framebuffer console (depth 8/15/16/24/32, seeded pitch >= row bytes, two colour-mask layouts, each shipped font, logo present or absent, leftover right columns and bottom rows). While active, after every operation every console cell must equal the reference viewport cell (text cells decoded; framebuffer cells compared pixel by pixel with an independent glyph/colour renderer) and every byte outside the cell grid must keep the value it had when the terminal was attached; while inactive the console memory must be byte-identical to what it was at deactivation; activation must re-establish equality. Non-trivial / distinct as in C17 (hash includes console kind and depth).",
		Assume:   []string{"everything outside the grid except the logo is initialised to one uniform value: the real scroll moves whole rows including padding and leftover columns, moving equal bytes is invisible; whether it should touch them is C19's question, which is not claimed", "only the in-range calls a terminal makes are exercised on the real consoles"},
		Required: []string{"tty.console_kind_0", "tty.console_kind_1", "tty.console_kind_2", "tty.fb_8bpp", "tty.fb_15bpp", "tty.fb_16bpp", "tty.fb_24bpp", "tty.fb_32bpp", "tty.fb_with_logo", "tty.activation_after_writes_while_inactive", "tty.buffer_scrolled", "tty.viewport_advanced_through_scrollback"},
	})

	// ------------------------------------------------------------------ HAL (C16)
	addEngine(&engineSpec{
		Name: "hal", PkgDir: "hal",
		Files: []overlayFile{
			simkitFor("hal", "hal"),
			{Src: "engines/hal/harness.go.txt", Dst: "hal/zz_verif_hal_test.go", Pkg: "hal"},
			{Src: "engines/shims/device_shim.go.txt", Dst: "device/zz_verif_shim.go", Pkg: "device"},
			{Src: "engines/shims/kfmt_shim.go.txt", Dst: "kfmt/zz_verif_shim.go", Pkg: "kfmt"},
			{Src: "engines/shims/tty_shim.go.txt", Dst: "device/tty/zz_verif_shim.go", Pkg: "tty"},
			{Src: "engines/shims/multiboot_shim.go.txt", Dst: "multiboot/zz_verif_shim.go", Pkg: "multiboot"},
		},
		Anchors: []string{"kernel/hal/hal.go", "kernel/device/driver.go", "kernel/kfmt/ringbuf.go", "kernel/kfmt/fmt.go", "kernel/kfmt/prefix_writer.go", "kernel/device/tty/vt.go"},
		Real:    []string{"hal.DetectHardware / probe / onDriverInit / onConsoleInit / linkTTYToConsole", "device.DriverInfoList sorting", "kfmt.Printf / Fprintf, the early ring buffer, SetOutputSink, PrefixWriter", "tty.VT behind a recording wrapper"},
		Stub:    []string{"mock drivers (plain, console, terminal) whose probe/initialisation outcome is a fault decision and which log unique tokens", "cell-grid console, in a third of the cases one that - like the shipped framebuffer console - has a size in characters only after the HAL has set its font (boot command line with/without consoleLogo/consoleFont options)"},
	})
	addProp(&propSpec{
		ID: "C16", Engine: "hal", Level: "exploration",
		Subs: []subCheck{{Name: "C16", QuickRuns: 1000000000, QuickMs: 20000, ThoroughRuns: 1000000000, ThoroughMs: 480000}},
		Rule: "one evaluation = one simulated bring-up: 1-10 mock drivers with seeded detection orders (duplicates included) registered in a seeded permutation, a seeded subset absent (probe_absent) or failing to initialise (init_fail, unique error message), 0-3 consoles and 0-3 terminals at seeded positions so that either kind can come first; 0-5000 bytes of kernel log in seeded chunks before detection (ring_overflow when above capacity), tokens logged by drivers during initialisation, more log afterwards. Checked: probe calls in non-decreasing detection order, each driver probed/initialised once, failing drivers reported and never active, first console and first terminal win, terminal attached once to that console, active, kfmt's sink, console == terminal viewport; the terminal's received byte stream must start with exactly the unread ring content at the moment of attachment, every later token exactly once and in order, early tokens present form a suffix of the emission order and are missing only when the ring was full. Non-trivial = at least 3 drivers and a console/terminal pair came up; distinct = hash of (driver population, permutation, pre-boot log size).",
		Assume:   []string{"ties in detection order may be probed in any order (the statement says non-decreasing)", "wording of the HAL's own messages is not compared; delivery is checked on tokens"},
		Required: []string{"c16.terminal_first", "c16.console_first", "c16.ring_dropped_oldest", "c16.whole_early_log_delivered", "c16.init_failure_reported", "c16.no_terminal_pair"},
	})
}
