package main

import (
	"encoding/binary"
	"encoding/json"
	"fmt"
	"os"
	"os/exec"
	"path/filepath"
	"regexp"
	"sort"
	"strings"
	"sync"
	"time"
)

type ReplayFile struct {
	Property string   `json:"property"`
	Check    string   `json:"check"`
	Tier     string   `json:"tier"`
	Seed     uint64   `json:"seed"`
	Run      uint64   `json:"run"`
	Choices  []uint64 `json:"choices"`
	Oracle   string   `json:"oracle"`
	Msg      string   `json:"msg"`
	Trace    []string `json:"trace"`
	OrigLen  int      `json:"unminimised_choices"`
	MinTries int      `json:"minimise_attempts"`
	Source   string   `json:"source_hash,omitempty"`
	Note     string   `json:"note,omitempty"`
}

type workerResult struct {
	Check        string                   `json:"check"`
	Shard        int                      `json:"shard"`
	Runs         uint64                   `json:"runs"`
	Nontrivial   uint64                   `json:"nontrivial"`
	Faulted      uint64                   `json:"faulted_runs"`
	FaultFree    uint64                   `json:"fault_free_runs"`
	Inconclusive uint64                   `json:"inconclusive_runs"`
	SimSteps     uint64                   `json:"sim_steps"`
	Probes       map[string]uint64        `json:"probes"`
	Faults       map[string]uint64        `json:"faults"`
	States       int                      `json:"distinct_states"`
	Samples      []map[string]interface{} `json:"samples"`
	Failures     []string                 `json:"failures"`
	WallMs       int64                    `json:"wall_ms"`
	Digests      map[string]string        `json:"digests,omitempty"`
	Extra        map[string]interface{}   `json:"extra,omitempty"`
	Stopped      bool                     `json:"stopped_on_failures"`
}

type subCheck struct {
	Name         string // registered PropFn id in the test binary
	QuickRuns    uint64
	QuickMs      uint64
	ThoroughRuns uint64
	ThoroughMs   uint64
	MinMs        uint64 // minimisation time box per failure (ms); 0 => default
	Note         string
}

type propSpec struct {
	ID         string
	Engine     string
	Level      string // evidence level
	Subs       []subCheck
	Rule       string
	Assume     []string
	Required   []string // probes that should be non-zero (warning only)
	PostCheck  func(ps *propSpec, b *built, outDir string, o checkOpts, agg *aggregate) []candidate
}

type candidate struct {
	path string
	rf   ReplayFile
}

type aggregate struct {
	runs, nontrivial, faulted, faultFree, inconcl, steps uint64
	probes, faults                                      map[string]uint64
	states                                              map[uint64]struct{}
	samples                                             []interface{}
	perSub                                              map[string]map[string]uint64
	extra                                               map[string]interface{}
	deadWorkers                                         []string
}

type checkResult struct {
	exit       int
	violations []string
	known      []string
}

type knownFinding struct {
	Property string `json:"property"`
	Oracle   string `json:"oracle"`
	MsgRe    string `json:"msg_regexp,omitempty"`
	What     string `json:"what"`
	Status   string `json:"status"` // "open" | "fixed: <commit>"
	Replay   string `json:"replay,omitempty"`
}

func loadKnown() []knownFinding {
	var kf struct {
		Findings []knownFinding `json:"findings"`
	}
	data, err := os.ReadFile(filepath.Join(verifRoot, "known_findings.json"))
	if err != nil {
		return nil
	}
	if err := json.Unmarshal(data, &kf); err != nil {
		die(2, "known_findings.json does not parse: %v", err)
	}
	return kf.Findings
}

func matchKnown(kfs []knownFinding, prop, oracle, msg string) *knownFinding {
	for i := range kfs {
		k := &kfs[i]
		if k.Status != "open" || k.Property != prop || k.Oracle != oracle {
			continue
		}
		if k.MsgRe != "" {
			re, err := regexp.Compile(k.MsgRe)
			if err != nil || !re.MatchString(msg) {
				continue
			}
		}
		return k
	}
	return nil
}

type replayResult struct {
	Failed bool     `json:"failed"`
	Oracle string   `json:"oracle"`
	Msg    string   `json:"msg"`
	Trace  []string `json:"trace"`
	Digest string   `json:"trace_digest"`
}

// replayOnce re-executes a replay file in a fresh process of the freshly built engine.
func replayOnce(b *built, rf *ReplayFile, path string) (*replayResult, error) {
	out := filepath.Join(b.work, fmt.Sprintf("replay-out-%d.json", time.Now().UnixNano()))
	cmd := exec.Command(b.bin, "-test.run", "^TestVerifWorker$", "-test.count=1", "-test.timeout=0")
	cmd.Env = append(goEnv(), "VERIF_MODE=replay", "VERIF_CHECK="+rf.Check, "VERIF_PROP="+rf.Property, "VERIF_TIER="+rf.Tier, "VERIF_REPLAY="+path, "VERIF_OUT="+out)
	cmd.Dir = b.work
	done := make(chan error, 1)
	var outb []byte
	go func() {
		var err error
		outb, err = cmd.CombinedOutput()
		done <- err
	}()
	select {
	case err := <-done:
		data, rerr := os.ReadFile(out)
		os.Remove(out)
		if rerr != nil {
			if strings.Contains(string(outb), "VERIF-INFRA") {
				return nil, fmt.Errorf("%s", lastLines(string(outb), 4))
			}
			// the process died before writing its result: that is a (crash) failure of the run
			if err != nil {
				msg := lastLines(string(outb), 6)
				return &replayResult{Failed: true, Oracle: rf.Property + "/process-died", Msg: classifyDeath(msg)}, nil
			}
			return nil, fmt.Errorf("replay produced no result: %s", lastLines(string(outb), 10))
		}
		var rr replayResult
		if jerr := json.Unmarshal(data, &rr); jerr != nil {
			return nil, jerr
		}
		return &rr, nil
	case <-time.After(5 * time.Minute):
		cmd.Process.Kill()
		return nil, fmt.Errorf("replay timed out after 5 minutes (wall-clock hang)")
	}
}

// deathSummary keeps the runtime's own fatal message (first lines) and the tail of the output
func deathSummary(s string) string {
	var keep []string
	for _, l := range strings.Split(s, "\n") {
		if strings.HasPrefix(l, "fatal error") || strings.HasPrefix(l, "runtime:") || strings.HasPrefix(l, "panic:") || strings.HasPrefix(l, "SIG") {
			keep = append(keep, l)
			if len(keep) >= 4 {
				break
			}
		}
	}
	return strings.Join(keep, " | ") + " || " + lastLines(s, 3)
}

func lastLines(s string, n int) string {
	ls := strings.Split(strings.TrimRight(s, "\n"), "\n")
	if len(ls) > n {
		ls = ls[len(ls)-n:]
	}
	return strings.Join(ls, " | ")
}

func classifyDeath(out string) string {
	for _, k := range []string{"stack overflow", "fatal error: all goroutines are asleep", "unexpected fault address", "concurrent map", "out of memory", "signal SIGSEGV", "fatal error"} {
		if strings.Contains(out, k) {
			return "worker process died: " + k
		}
	}
	return "worker process died"
}

func runWorkers(b *built, ps *propSpec, sc subCheck, o checkOpts, outDir string, digests bool, kfs []knownFinding) ([]workerResult, []string) {
	runs, ms := sc.QuickRuns, sc.QuickMs
	if o.tier == "thorough" {
		runs, ms = sc.ThoroughRuns, sc.ThoroughMs
	}
	runs = uint64(float64(runs) * o.scale)
	ms = uint64(float64(ms) * o.scale)
	if runs < 1 {
		runs = 1
	}
	n := o.workers
	if uint64(n) > runs {
		n = int(runs)
	}
	var wg sync.WaitGroup
	var mu sync.Mutex
	var dead []string
	results := make([]workerResult, n)
	for i := 0; i < n; i++ {
		wg.Add(1)
		go func(i int) {
			defer wg.Done()
			cmd := exec.Command(b.bin, "-test.run", "^TestVerifWorker$", "-test.count=1", "-test.timeout=0")
			env := append(goEnv(), "VERIF_MODE=explore", "VERIF_CHECK="+sc.Name, "VERIF_PROP="+ps.ID, "VERIF_TIER="+o.tier,
				fmt.Sprintf("VERIF_SEED=%d", o.seed), fmt.Sprintf("VERIF_SHARD=%d", i), fmt.Sprintf("VERIF_NSHARDS=%d", n),
				fmt.Sprintf("VERIF_RUNS=%d", runs), fmt.Sprintf("VERIF_BUDGET_MS=%d", ms), "VERIF_OUT="+outDir, "GOMAXPROCS="+gomaxprocs())
			if sc.MinMs != 0 {
				env = append(env, fmt.Sprintf("VERIF_MIN_MS=%d", sc.MinMs))
			}
			if digests {
				env = append(env, "VERIF_DIGESTS=1")
			}
			if kj := knownJSON(kfs, ps.ID); kj != "" {
				env = append(env, "VERIF_KNOWN="+kj)
			}
			cmd.Env = env
			cmd.Dir = b.work
			done := make(chan error, 1)
			var outb []byte
			go func() {
				var err error
				outb, err = cmd.CombinedOutput()
				done <- err
			}()
			watchdog := time.Duration(ms)*time.Millisecond*4 + 10*time.Minute
			var err error
			select {
			case err = <-done:
			case <-time.After(watchdog):
				cmd.Process.Kill()
				<-done
				mu.Lock()
				dead = append(dead, fmt.Sprintf("INFRA shard %d of %s exceeded the wall-clock watchdog (%v); last run index: %s", i, sc.Name, watchdog, readCurrent(outDir, i)))
				mu.Unlock()
				return
			}
			data, rerr := os.ReadFile(filepath.Join(outDir, fmt.Sprintf("result-%d.json", i)))
			if rerr != nil && strings.Contains(string(outb), "VERIF-HUNG") {
				mu.Lock()
				dead = append(dead, fmt.Sprintf("INFRA shard %d of %s: wall-clock hang in run %s seed %d (a simulated run did not return; code under test spins without reaching a yield point)", i, sc.Name, readCurrent(outDir, i), o.seed))
				mu.Unlock()
				return
			}
			if rerr != nil {
				mu.Lock()
				dead = append(dead, fmt.Sprintf("DIED shard=%d check=%s run=%s err=%v out=%s", i, sc.Name, readCurrent(outDir, i), err, deathSummary(string(outb))))
				mu.Unlock()
				return
			}
			var wr workerResult
			if jerr := json.Unmarshal(data, &wr); jerr != nil {
				mu.Lock()
				dead = append(dead, fmt.Sprintf("INFRA shard %d wrote an unreadable result: %v", i, jerr))
				mu.Unlock()
				return
			}
			results[i] = wr
		}(i)
	}
	wg.Wait()
	return results, dead
}

func knownJSON(kfs []knownFinding, prop string) string {
	type k struct {
		Oracle string `json:"oracle"`
		MsgRe  string `json:"msg_regexp"`
	}
	var ks []k
	for _, f := range kfs {
		if f.Status == "open" && f.Property == prop {
			ks = append(ks, k{f.Oracle, f.MsgRe})
		}
	}
	if len(ks) == 0 {
		return ""
	}
	b, _ := json.Marshal(ks)
	return string(b)
}

func gomaxprocs() string {
	if v := os.Getenv("VERIF_GOMAXPROCS"); v != "" {
		return v
	}
	return "2"
}

func readCurrent(outDir string, shard int) string {
	data, err := os.ReadFile(filepath.Join(outDir, fmt.Sprintf("current-%d", shard)))
	if err != nil {
		return "?"
	}
	return strings.TrimSpace(string(data))
}

func runCheck(ps *propSpec, o checkOpts) checkResult {
	start := time.Now()
	res := checkResult{}
	say := func(format string, args ...interface{}) {
		if !o.quiet {
			fmt.Printf(format+"\n", args...)
		}
	}
	b, err := buildEngine(ps.Engine, o.overlayMut)
	if err != nil {
		fmt.Println("VERIF-INFRA build failed:", err)
		res.exit = 2
		return res
	}
	defer func() {
		if !o.keep {
			b.cleanup()
		}
	}()
	say("built engine %s from %s (anchor hash %s, %d inserted yield sites) in %.1fs", ps.Engine, repoRoot, b.srcHash, b.instrSites, time.Since(start).Seconds())
	kfs := loadKnown()
	agg := &aggregate{probes: map[string]uint64{}, faults: map[string]uint64{}, states: map[uint64]struct{}{}, perSub: map[string]map[string]uint64{}, extra: map[string]interface{}{}}
	var cands []candidate
	infra := false
	for _, sc := range ps.Subs {
		outDir := filepath.Join(b.work, "out-"+sc.Name)
		os.MkdirAll(outDir, 0755)
		results, dead := runWorkers(b, ps, sc, o, outDir, false, kfs)
		sub := map[string]uint64{}
		infraN := 0
		for _, wr := range results {
			agg.runs += wr.Runs
			agg.nontrivial += wr.Nontrivial
			agg.faulted += wr.Faulted
			agg.faultFree += wr.FaultFree
			agg.inconcl += wr.Inconclusive
			agg.steps += wr.SimSteps
			sub["runs"] += wr.Runs
			sub["nontrivial"] += wr.Nontrivial
			sub["wall_ms_max"] = maxU(sub["wall_ms_max"], uint64(wr.WallMs))
			for k, v := range wr.Probes {
				agg.probes[k] += v
			}
			for k, v := range wr.Faults {
				agg.faults[k] += v
			}
			for _, s := range wr.Samples {
				if len(agg.samples) < 4 {
					s["check"] = sc.Name
					agg.samples = append(agg.samples, s)
				}
			}
			for k, v := range wr.Extra {
				if f, ok := v.(float64); ok {
					if cur, ok := agg.extra[k].(float64); ok {
						agg.extra[k] = cur + f
					} else {
						agg.extra[k] = f
					}
				}
			}
			for _, p := range wr.Failures {
				data, err := os.ReadFile(p)
				if err != nil {
					continue
				}
				var rf ReplayFile
				if json.Unmarshal(data, &rf) == nil {
					cands = append(cands, candidate{p, rf})
				}
			}
		}
		// distinct states across workers
		files, _ := filepath.Glob(filepath.Join(outDir, "states-*.bin"))
		sort.Strings(files)
		for _, f := range files {
			data, _ := os.ReadFile(f)
			for i := 0; i+8 <= len(data); i += 8 {
				agg.states[binary.LittleEndian.Uint64(data[i:])] = struct{}{}
			}
		}
		agg.perSub[sc.Name] = sub
		for _, d := range dead {
			if strings.HasPrefix(d, "DIED") && (strings.Contains(d, "missing stackmap") || strings.Contains(d, "untyped locals")) {
				// the assembly under test declares a stack frame without a stack map: the Go runtime of
				// the simulation cannot scan/grow a goroutine parked inside it.  An artefact of running
				// kernel assembly in user space, not a property violation (the interpreted mode decides).
				infraN++
				if infraN <= 1 {
					fmt.Println("VERIF-INFRA " + sc.Name + ": the compiled assembly has a stack frame without a stack map and cannot be parked by the simulation (runtime: missing stackmap); this mode is skipped for this build")
				}
				infra = true
				continue
			}
			if strings.HasPrefix(d, "DIED") {
				// a worker process died inside a run: that run is a candidate violation,
				// attributable to (seed, run) from its journal, replayed below.
				var shard int
				var check, run string
				fmt.Sscanf(d, "DIED shard=%d check=%s run=%s", &shard, &check, &run)
				var runIdx uint64
				fmt.Sscanf(run, "%d", &runIdx)
				rf := ReplayFile{Property: ps.ID, Check: sc.Name, Tier: o.tier, Seed: o.seed, Run: runIdx, Choices: nil,
					Oracle: ps.ID + "/process-died", Msg: classifyDeath(d), Note: "worker process died during this run; choices are regenerated from (seed, run)"}
				p := filepath.Join(outDir, fmt.Sprintf("cand-died-%d.json", shard))
				bb, _ := json.MarshalIndent(rf, "", " ")
				os.WriteFile(p, bb, 0644)
				cands = append(cands, candidate{p, rf})
				agg.deadWorkers = append(agg.deadWorkers, d)
			} else {
				infraN++
				if infraN <= 2 {
					fmt.Println("VERIF-" + d)
				}
				infra = true
			}
		}
		if infraN > 2 {
			fmt.Printf("VERIF-INFRA ... and %d more worker(s) of %s with the same kind of trouble\n", infraN-2, sc.Name)
		}
		if ps.PostCheck != nil {
			cands = append(cands, ps.PostCheck(ps, b, outDir, o, agg)...)
		}
	}

	// confirm every candidate by replaying it in a fresh process
	os.MkdirAll(filepath.Join(verifRoot, "replays"), 0755)
	seenSig := map[string]bool{}
	violations := 0
	var knownHits []string
	sort.Slice(cands, func(i, j int) bool {
		if cands[i].rf.Oracle != cands[j].rf.Oracle {
			return cands[i].rf.Oracle < cands[j].rf.Oracle
		}
		return len(cands[i].rf.Choices) < len(cands[j].rf.Choices)
	})
	for _, c := range cands {
		rr, err := replayOnce(b, &c.rf, c.path)
		if err != nil {
			fmt.Printf("VERIF-INFRA could not confirm candidate %s: %v\n", filepath.Base(c.path), err)
			infra = true
			continue
		}
		if (!rr.Failed || rr.Oracle != c.rf.Oracle) && len(c.rf.Choices) > 0 {
			// The minimised choice list does not fail in a fresh process.  Minimisation re-executes inside
			// the worker, where code under test that carries state from one simulated run to the next keeps
			// failing whatever is removed.  Fall back to the run as it was generated from (seed, run index).
			orig := c.rf
			orig.Choices = nil
			origPath := c.path + ".orig.json"
			ob, _ := json.Marshal(orig)
			os.WriteFile(origPath, ob, 0644)
			if r2, e2 := replayOnce(b, &orig, origPath); e2 == nil && r2.Failed && r2.Oracle == c.rf.Oracle {
				c.rf.Choices = nil
				c.rf.Note = "not minimised: the minimised form did not fail in a fresh process (the code under test keeps state between simulated runs inside one process); replays the run as generated from seed and run index"
				rr = r2
			}
		}
		if !rr.Failed || rr.Oracle != c.rf.Oracle {
			fmt.Printf("VERIF-INFRA candidate %s (oracle %s) did not reproduce in a fresh process (got failed=%v oracle=%s): NOT reported as a violation; determinism defect in the harness\n", filepath.Base(c.path), c.rf.Oracle, rr.Failed, rr.Oracle)
			infra = true
			continue
		}
		c.rf.Msg = rr.Msg
		if len(rr.Trace) > 0 {
			c.rf.Trace = rr.Trace
		}
		c.rf.Source = b.srcHash
		if k := matchKnown(kfs, ps.ID, c.rf.Oracle, c.rf.Msg); k != nil {
			sig := "K:" + k.Oracle + k.MsgRe
			if !seenSig[sig] {
				seenSig[sig] = true
				line := fmt.Sprintf("KNOWN-FINDING: property=%s %s", ps.ID, k.What)
				fmt.Println(line)
				knownHits = append(knownHits, line)
			}
			continue
		}
		sig := c.rf.Oracle
		if seenSig[sig] {
			continue // one replay file per violated oracle is enough
		}
		seenSig[sig] = true
		dst := filepath.Join(verifRoot, "replays", fmt.Sprintf("%s-%s-seed%d-run%d.json", ps.ID, sanitize(strings.TrimPrefix(c.rf.Oracle, ps.ID+"/")), c.rf.Seed, c.rf.Run))
		bb, _ := json.MarshalIndent(c.rf, "", " ")
		os.WriteFile(dst, bb, 0644)
		violations++
		fmt.Printf("violation: oracle=%s\n  %s\n  (%d choices after minimisation from %d)\n", c.rf.Oracle, c.rf.Msg, len(c.rf.Choices), c.rf.OrigLen)
		fmt.Printf("VIOLATION property=%s replay=%s\n", ps.ID, dst)
		res.violations = append(res.violations, dst)
	}
	res.known = knownHits

	wall := time.Since(start).Seconds()
	writeEvidence(ps, b, o, agg, violations, knownHits, wall)
	var unreached []string
	for _, p := range ps.Required {
		if agg.probes[p] == 0 {
			unreached = append(unreached, p)
		}
	}
	if len(unreached) > 0 {
		fmt.Printf("WARNING: required probes not reached in this run: %s\n", strings.Join(unreached, ", "))
	}
	say("%s %s: %d simulated runs (%d non-trivial, %d distinct), %d faulted / %d fault-free, %d inconclusive, %d sim steps, %.1fs wall",
		ps.ID, o.tier, agg.runs, agg.nontrivial, len(agg.states), agg.faulted, agg.faultFree, agg.inconcl, agg.steps, wall)
	switch {
	case violations > 0:
		res.exit = 1
	case infra:
		res.exit = 2
	default:
		res.exit = 0
	}
	return res
}

func maxU(a, b uint64) uint64 {
	if a > b {
		return a
	}
	return b
}

func sanitize(s string) string {
	var sb strings.Builder
	for _, r := range s {
		if (r >= 'a' && r <= 'z') || (r >= 'A' && r <= 'Z') || (r >= '0' && r <= '9') || r == '-' || r == '_' {
			sb.WriteRune(r)
		} else {
			sb.WriteByte('_')
		}
	}
	return sb.String()
}

func writeEvidence(ps *propSpec, b *built, o checkOpts, agg *aggregate, violations int, known []string, wall float64) {
	es := b.engine
	samples := agg.samples
	if len(samples) == 0 {
		samples = []interface{}{map[string]interface{}{"note": "no sample trace recorded"}}
	}
	var unreached []string
	for _, p := range ps.Required {
		if agg.probes[p] == 0 {
			unreached = append(unreached, p)
		}
	}
	rph := 0.0
	if wall > 0 {
		rph = float64(agg.runs) / wall * 3600
	}
	cov := map[string]interface{}{
		"evaluations":         agg.runs,
		"distinct_nontrivial": len(agg.states),
		"nontrivial_runs":     agg.nontrivial,
		"rule":                ps.Rule,
		"samples":             samples,
		"runs_per_hour":       int64(rph),
		"seeds":               []uint64{o.seed},
		"sim_steps":           agg.steps,
		"simulated_time":      "n/a - the codebase has no clocks, timers or deadlines; progress is measured in simulated steps",
		"fault_kinds":         agg.faults,
		"faulted_runs":        agg.faulted,
		"fault_free_runs":     agg.faultFree,
		"probes":              agg.probes,
		"unreached_probes":    unreached,
		"inconclusive_runs":   agg.inconcl,
		"per_check":           agg.perSub,
		"components":          map[string]interface{}{"real": es.Real, "stub": es.Stub},
		"anchor_source_hash":  b.srcHash,
		"inserted_yield_sites": b.instrSites,
		"known_findings_hit":  known,
		"workers":             o.workers,
		"distinct_count_cap":  "distinct run signatures are counted up to 262144 per worker process (conservative beyond that)",
	}
	for k, v := range agg.extra {
		cov[k] = v
	}
	ev := map[string]interface{}{
		"property_id": ps.ID,
		"tier":        o.tier,
		"seed":        o.seed,
		"level":       ps.Level,
		"coverage":    cov,
		"assumptions": ps.Assume,
		"wall_s":      wall,
		"violations":  violations,
	}
	data, _ := json.MarshalIndent(ev, "", " ")
	dir := filepath.Join(verifRoot, "evidence")
	os.MkdirAll(dir, 0755)
	if o.overlayMut != "" || os.Getenv("VERIF_NO_EVIDENCE") != "" {
		return // sensitivity runs never overwrite evidence
	}
	os.WriteFile(filepath.Join(dir, ps.ID+".json"), data, 0644)
}
