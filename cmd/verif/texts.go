package main

var engineDir = map[string]string{"sync": "sync", "pmm": "pmm", "pmmc": "pmm", "vmm": "vmm", "tree": "tree", "acpi": "acpi", "hal": "hal", "tty": "tty"}
var engineKind = map[string]string{
	"sync": "real compiled spinlock under a seeded one-at-a-time scheduler (goroutine tasks with a baton, yieldFn seam, inserted statement yields) + instruction-level interpreter of the current spinlock_amd64.s with single-instruction interleaving",
	"pmm":  "simulated boot: generated multiboot memory map -> real early allocator -> real pmm.Init -> real bitmap allocator; sequential multi-caller histories against a frame-set reference model, injected reservation/mapping failures, natural early-boot OOM",
	"vmm":  "software MMU over a fixed-address host arena: simulated CR3, TLB invalidation log, seeded failing frame allocator, independent page-table walker; real Map/Unmap/Translate/regions/PageDirectoryTable/vmm.Init/page-fault handler; harness plays bootloader (ELF sections tag) and CPU (page faults)",
	"tree": "real aml.ObjectTree driven by seeded edit/lookup histories against a reference tree and reference resolver (single party, no hardware)",
	"acpi": "simulated firmware memory (fixed-address arena below 4 GiB) with generated valid ACPI images and a fault plan (byte corruption, decoy root pointers, mapping failures); real probe/enumeration code",
	"tty":  "real tty.VT in lock-step with a reference terminal; consoles: reference cell grid, real VGA text console, real VESA framebuffer console on guarded host memory; independent pixel renderer as oracle",
	"hal":  "real HAL bring-up over mock drivers with seeded detection orders, registration permutations, absent/failing drivers and pre-boot log volume; token-based ordering/exactly-once oracle over the log hand-over",
	"pmmc": "same simulated boot, bitmap_allocator.go rebuilt with go/ast-inserted yields; 2-16 goroutine tasks under the seeded scheduler, real spinlock; ownership invariant, conservation at quiescence, exact deadlock detection, porcupine linearizability of recorded histories",
}

func init() {
	t := func(id, level, note, tech, ref string) {
		levelText[id], levelNote[id], techniqueText[id], designRef[id] = level, note, tech, ref
	}
	t("C08",
		"Seeded search over schedules of 2-16 simulated tasks using the real spinlock: strict stepwise oracle when operations are atomic (mode A), linearizability of the lock history + holder-count invariant when they overlap (statement-level mode S, instruction-level mode B on the interpreted assembly), exact blocks-forever detection. Sampling, not enumeration: a clean batch is evidence, not proof.",
		"Trusted: the simulation kit, the x86 subset interpreter (MOV/XCHG/CMPXCHG/TEST/CMP/DEC/INC/ALU/Jcc/PAUSE/CALL/RET), sequential consistency. Not covered: real multi-core parallelism and the hardware memory model.",
		"deterministic simulation: seeded one-at-a-time scheduler over real code + instruction-level interpreter; linearizability oracle",
		"DESIGN.md 5.2")
	t("C01",
		"Seeded simulated boots over generated memory maps and kernel placements followed by multi-caller allocate/free histories; every frame handed out is checked against independently computed reference sets (available, kernel, early-boot, currently held). Sub-check C01B boots the real PMM and the real VMM as one system on one simulated machine and checks exclusivity and conservation of frames across both managers.",
		"Trusted: block builder, reference arithmetic (division-based), stubs for region reservation and mapping. Sequential histories only (concurrency is C09).",
		"deterministic simulation: simulated boot + seeded operation histories against a reference model",
		"DESIGN.md 5.1")
	t("C02",
		"Seeded simulated boots: every early allocation up to and beyond exhaustion is checked (available RAM, not kernel, strictly ascending, OOM contract) and a reset-and-replay of n allocations must reproduce the same frames.",
		"Trusted: block builder and reference arithmetic. Memory maps are sorted/non-overlapping, kernel start page-aligned inside an available region.",
		"deterministic simulation: simulated bootloader + seeded configurations, stepwise reference model",
		"DESIGN.md 5.1")
	t("C03",
		"Seeded simulated boots with injected reservation/mapping failures and natural early-boot OOM; Init must return nil or the right error and never panic; counters and printed statistics checked after every call; bad frees must be rejected without any state change; final drain must yield exactly the usable set.",
		"Trusted: as C01. Spurious-OOM bound assumes allocator metadata for < 2500 frames needs at most 2 pages.",
		"deterministic simulation with fault injection: simulated boot, seeded histories incl. invalid frees, reference accounting model",
		"DESIGN.md 5.1")
	t("C09",
		"Seeded search over schedules of 2-16 concurrent callers with preemption before every statement of the allocator's methods (go/ast-inserted yields in a copy of the current file) and at the real spinlock's yield seam: ownership exclusivity during the run, conservation and drain at quiescence, exact deadlock detection (a lock leaked on any return path blocks a later caller forever), linearizability of the recorded history (inline search on every run + porcupine v1.3.0 on a sample).",
		"Trusted: simulation kit, instrumenter (statement granularity), reference frame sets. Not covered: true parallelism, weak memory. The anchor's 'static pairing of Acquire/Release' is replaced by executing every return path under contention (probes).",
		"deterministic simulation: seeded scheduler over yield-instrumented real code; invariants + linearizability (porcupine) of recorded histories",
		"DESIGN.md 5.1 / 4.3")
	t("C04",
		"Seeded operation histories on a software MMU with every present leaf of every address space compared against a page->entry model by an independent walker after each operation, plus systematic enumeration: for a short history every (operation, k-th frame allocation) pair is made to fail once; plus an extended mode (C04T) in which the simulated TLB retains recursive-window translations until they are invalidated or evicted by a seeded eviction. Sampling of histories; enumeration of fault points within each sampled history.",
		"Trusted: simulated MMU (ideal: no stale TLB entries), walker, allocator stub, temporary-mapping data-path shim. nextAddrFn's argument (virtual address arithmetic of the next table) is not exercised.",
		"deterministic simulation with fault injection: software MMU, seeded histories + systematic k-th allocation failure, reference model refinement",
		"DESIGN.md 5.3.2")
	t("C05",
		"Seeded simulated boots (reservations + generated ELF sections + optional failures) through the real vmm.Init; complete enumeration of the activated page-table tree must equal the expected set exactly.",
		"Trusted: as C04 plus the ELF-sections tag builder. Weakest fit for the family (no schedule; faults are irrelevant to the statement) - claimed as a stage of the simulated boot observable only through the simulated MMU.",
		"deterministic simulation: simulated bootloader + software MMU, whole-tree comparison against expected mappings",
		"DESIGN.md 5.3.3")
	t("C06",
		"Seeded histories after a real boot: guard attempts through every mapping entry point, page faults raised through the handler the kernel registered, with allocation / temporary-mapping failure injected at each step of the handler; return-vs-panic and the complete post-state are checked; zero-frame invariant after every step in every address space.",
		"Trusted: as C04; page contents are compared through frames (virtual window loaded from the mapped frame before the fault).",
		"deterministic simulation with fault injection: harness-CPU page faults, per-step allocator/temp-map failures, invariant + post-state oracle",
		"DESIGN.md 5.3.4")
	t("C07",
		"Seeded request histories (sizes 0 .. beyond remaining space .. 2^64-1) against a list-of-grants model; recorded map-seam calls compared pair by pair; map failure injected at a seeded call.",
		"Trusted: arithmetic of the model (unbounded via explicit overflow checks). Map seam is a recorder here.",
		"deterministic simulation with fault injection: seeded request histories, grant-list reference model, failing map seam",
		"DESIGN.md 5.3.5")
	t("C13",
		"Seeded edit/lookup histories with stepwise refinement of a reference tree (every link, both directions, after every edit) and a reference resolver written from the statement. Degenerate fit for the family (single party, no schedule/fault), stated as such.",
		"Trusted: the reference tree and resolver. Lookups with duplicate sibling names and malformed expressions are only required not to crash.",
		"deterministic simulation (degenerate: sequential seeded histories) with stepwise reference-model refinement",
		"DESIGN.md 5.4")
	t("C14",
		"Seeded firmware images with injected faults (corrupted tables at any position, decoys, mapping failure at call k); the registered set must equal exactly the checksum-valid listed tables plus the DSDT of a valid FADT; enumeration must continue past every corrupted table and report it.",
		"Trusted: image builder (ACPI layout, independent of the Go structs), checksum arithmetic of the oracle. Weakest 'fault' fit: the image is immutable during the call.",
		"deterministic simulation with fault injection: simulated firmware memory, seeded corruption/decoy/mapping-failure plans, exact-set oracle",
		"DESIGN.md 5.5")
	t("C17",
		"Seeded multi-writer histories with stepwise refinement of a reference terminal (cursor, whole buffer incl. scrollback, viewport origin) after every operation; out-of-buffer accesses surface as Go panics.",
		"Trusted: reference terminal written from the statement. Single party effectively (writers are labels): no schedule or fault dimension.",
		"deterministic simulation (sequential seeded histories) with stepwise reference-model refinement",
		"DESIGN.md 5.7")
	t("C18",
		"Two-component consistency under seeded histories: console == reference viewport after every operation while active (cell by cell; framebuffer pixel by pixel through an independent renderer), byte-identical console while inactive, resync on activation; real text-mode and framebuffer consoles on guarded host memory.",
		"Trusted: reference terminal, independent renderer (font bitmap -> pixels, palette -> packed pixel per colour masks). Area outside the grid is initialised uniformly (see assumptions).",
		"deterministic simulation: two real components on simulated display hardware, cross-component invariant after every step",
		"DESIGN.md 5.7")
	t("C16",
		"Seeded bring-up histories with injected probe/initialisation failures and ring overflow; ordering, exactly-once delivery and oldest-dropped-first are checked on unique tokens over the recorded byte stream the terminal received; active pair and linkage checked for both arrival orders.",
		"Trusted: mock drivers, token bookkeeping. Real console drivers and the ACPI driver are not part of this engine's runs (mock consoles + real VT).",
		"deterministic simulation with fault injection: seeded driver populations/failures/log volume, history oracle (ordering, exactly-once) over the recorded log stream",
		"DESIGN.md 5.6")
}
