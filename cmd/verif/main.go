// Command verif is the driver of the deterministic-simulation checks for ProjectSerenity/firefly.
//
//	verif check <property> [--tier quick|thorough] [--seed N]
//	verif replay <file>
//	verif selftest determinism <property> [--seeds N]
//	verif list
//
// Exit codes: 0 = property held on everything explored (KNOWN-FINDING lines possible),
// 1 = at least one unlisted violation (VIOLATION property=<id> replay=<path>),
// 2 = infrastructure trouble (build failure, watchdog, unknown instruction ...).
package main

import (
	"encoding/json"
	"fmt"
	"os"
	"path/filepath"
	"strconv"
	"strings"
)

var (
	verifRoot string
	repoRoot  string
)

func die(code int, format string, args ...interface{}) {
	fmt.Fprintf(os.Stderr, format+"\n", args...)
	os.Exit(code)
}

func findRoot() string {
	if v := os.Getenv("VERIF_ROOT"); v != "" {
		return v
	}
	if exe, err := os.Executable(); err == nil {
		d := filepath.Dir(filepath.Dir(exe))
		if _, err := os.Stat(filepath.Join(d, "simkit", "simkit.go.txt")); err == nil {
			return d
		}
	}
	wd, _ := os.Getwd()
	for d := wd; d != "/"; d = filepath.Dir(d) {
		if _, err := os.Stat(filepath.Join(d, "simkit", "simkit.go.txt")); err == nil {
			return d
		}
	}
	return "/verif"
}

func main() {
	verifRoot = findRoot()
	repoRoot = os.Getenv("VERIF_REPO")
	if repoRoot == "" {
		repoRoot = "/repo"
	}
	if len(os.Args) < 2 {
		die(2, "usage: verif check|replay|selftest|list ...")
	}
	switch os.Args[1] {
	case "check":
		os.Exit(cmdCheck(os.Args[2:]))
	case "replay":
		os.Exit(cmdReplay(os.Args[2:]))
	case "selftest":
		os.Exit(cmdSelftest(os.Args[2:]))
	case "mutants":
		os.Exit(cmdMutants(os.Args[2:]))
	case "manifest":
		cmdManifest()
	case "list":
		for _, p := range propOrder {
			ps := props[p]
			fmt.Printf("%s engine=%s level=%s\n", p, ps.Engine, ps.Level)
		}
	default:
		die(2, "unknown command %q", os.Args[1])
	}
}

type checkOpts struct {
	prop    string
	tier    string
	seed    uint64
	workers int
	keep    bool
	scale   float64
	overlayMut string // optional mutant overlay: "<relpath>=<file>"
	quiet   bool
}

func parseCheckArgs(args []string) checkOpts {
	o := checkOpts{tier: "quick", seed: 1, workers: 16, scale: 1}
	if v := os.Getenv("VERIF_TIER"); v != "" {
		o.tier = v
	}
	if v := os.Getenv("VERIF_SEED"); v != "" {
		if n, err := strconv.ParseUint(strings.TrimSpace(v), 10, 64); err == nil {
			o.seed = n
		} else if n, err := strconv.ParseInt(strings.TrimSpace(v), 10, 64); err == nil {
			o.seed = uint64(n)
		}
	}
	if v := os.Getenv("VERIF_WORKERS"); v != "" {
		if n, err := strconv.Atoi(v); err == nil && n > 0 {
			o.workers = n
		}
	}
	for i := 0; i < len(args); i++ {
		a := args[i]
		next := func() string {
			if i+1 >= len(args) {
				die(2, "missing value for %s", a)
			}
			i++
			return args[i]
		}
		switch a {
		case "--tier":
			o.tier = next()
		case "--seed":
			n, err := strconv.ParseUint(next(), 10, 64)
			if err != nil {
				die(2, "bad seed")
			}
			o.seed = n
		case "--workers":
			n, _ := strconv.Atoi(next())
			if n > 0 {
				o.workers = n
			}
		case "--scale":
			f, _ := strconv.ParseFloat(next(), 64)
			if f > 0 {
				o.scale = f
			}
		case "--keep":
			o.keep = true
		case "--mutant":
			o.overlayMut = next()
		case "--quiet":
			o.quiet = true
		default:
			if strings.HasPrefix(a, "--") {
				die(2, "unknown flag %s", a)
			}
			o.prop = a
		}
	}
	if o.tier != "quick" && o.tier != "thorough" {
		die(2, "tier must be quick or thorough")
	}
	if o.prop == "" {
		die(2, "property id required")
	}
	return o
}

func cmdCheck(args []string) int {
	o := parseCheckArgs(args)
	ps, ok := props[o.prop]
	if !ok {
		die(2, "unknown property %q", o.prop)
	}
	res := runCheck(ps, o)
	return res.exit
}

func cmdReplay(args []string) int {
	if len(args) < 1 {
		die(2, "usage: verif replay <file>")
	}
	if abs, err := filepath.Abs(args[0]); err == nil {
		args[0] = abs
	}
	data, err := os.ReadFile(args[0])
	if err != nil {
		die(2, "cannot read %s: %v", args[0], err)
	}
	var rf ReplayFile
	if err := json.Unmarshal(data, &rf); err != nil {
		die(2, "bad replay file: %v", err)
	}
	ps, ok := props[rf.Property]
	if !ok {
		die(2, "replay file names unknown property %q", rf.Property)
	}
	b, err := buildEngine(ps.Engine, "")
	if err != nil {
		fmt.Println("VERIF-INFRA build failed:", err)
		return 2
	}
	defer b.cleanup()
	rr, err := replayOnce(b, &rf, args[0])
	if err != nil {
		fmt.Println("VERIF-INFRA replay failed:", err)
		return 2
	}
	for _, l := range rr.Trace {
		fmt.Println("  ", l)
	}
	if rr.Failed {
		same := rr.Oracle == rf.Oracle && rr.Msg == rf.Msg
		fmt.Printf("replay: FAILED oracle=%s\n  msg=%s\n  identical-to-recorded=%v\n", rr.Oracle, rr.Msg, same)
		fmt.Printf("VIOLATION property=%s replay=%s\n", rf.Property, args[0])
		return 1
	}
	fmt.Println("replay: passed (the recorded violation does not reproduce on the current tree)")
	return 0
}
