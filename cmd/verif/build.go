package main

import (
	"bytes"
	"crypto/sha256"
	"encoding/json"
	"fmt"
	"go/ast"
	"go/parser"
	"go/printer"
	"go/token"
	"os"
	"os/exec"
	"path/filepath"
	"sort"
	"strings"
)

// overlayFile: a template under /verif stamped into a package directory of /repo/kernel
// through `go test -overlay` (the repository itself is never written to).
type overlayFile struct {
	Src string // path relative to /verif
	Dst string // path relative to /repo/kernel
	Pkg string // package clause to substitute for PKGNAME
}

// instrSpec: go/ast yield instrumentation of one source file of the current working tree.
type instrSpec struct {
	File  string   // relative to /repo/kernel
	Funcs []string // "Recv.Method" or "Func"; empty = every function in the file
	Hooks string   // Dst (relative to /repo/kernel) of the overlay-added hooks file
	Pkg   string
}

type engineSpec struct {
	Name    string
	PkgDir  string // relative to /repo/kernel, e.g. "sync"
	Files   []overlayFile
	Instr   []instrSpec
	Anchors []string // source files hashed into replay files / evidence (relative to /repo)
	Real    []string
	Stub    []string
}

type built struct {
	engine  *engineSpec
	work    string
	bin     string
	srcHash string
	instrSites int
}

func (b *built) cleanup() {
	if b != nil && b.work != "" && os.Getenv("VERIF_KEEP_WORK") == "" {
		os.RemoveAll(b.work)
	}
}

func goEnv() []string {
	env := os.Environ()
	env = append(env, "GOFLAGS=-mod=mod", "GOPROXY=off", "GOSUMDB=off", "GOTOOLCHAIN=local", "CGO_ENABLED=0", "VERIF_REPO_KERNEL="+filepath.Join(repoRoot, "kernel"))
	return env
}

const hooksTemplate = `//go:build verif
// +build verif

package PKGNAME

// verifYieldFn is installed by the simulation harness; nil => inserted yields are no-ops.
var verifYieldFn func(site int)

func verifYield(site int) {
	if verifYieldFn != nil {
		verifYieldFn(site)
	}
}

// VerifSetStmtYieldFn lets a harness in another package install the hook.
func VerifSetStmtYieldFn(f func(site int)) { verifYieldFn = f }
`

func stamp(src, pkg string) ([]byte, error) {
	data, err := os.ReadFile(filepath.Join(verifRoot, src))
	if err != nil {
		return nil, err
	}
	return bytes.Replace(data, []byte("package PKGNAME"), []byte("package "+pkg), 1), nil
}

// instrument inserts verifYield(<site>) before every statement of the selected functions.
func instrument(path string, funcs []string) ([]byte, int, error) {
	fset := token.NewFileSet()
	f, err := parser.ParseFile(fset, path, nil, parser.ParseComments)
	if err != nil {
		return nil, 0, err
	}
	want := map[string]bool{}
	for _, fn := range funcs {
		want[fn] = true
	}
	site := 0
	mk := func() ast.Stmt {
		site++
		return &ast.ExprStmt{X: &ast.CallExpr{Fun: ast.NewIdent("verifYield"), Args: []ast.Expr{&ast.BasicLit{Kind: token.INT, Value: fmt.Sprint(site)}}}}
	}
	var doBlock func(list []ast.Stmt) []ast.Stmt
	var doStmt func(s ast.Stmt)
	doStmt = func(s ast.Stmt) {
		switch v := s.(type) {
		case *ast.BlockStmt:
			v.List = doBlock(v.List)
		case *ast.IfStmt:
			v.Body.List = doBlock(v.Body.List)
			if v.Else != nil {
				doStmt(v.Else)
			}
		case *ast.ForStmt:
			v.Body.List = doBlock(v.Body.List)
			if len(v.Body.List) == 0 {
				// an empty-bodied spin loop ("for cond {}") must still give the scheduler a chance
				v.Body.List = []ast.Stmt{mk()}
			}
		case *ast.RangeStmt:
			v.Body.List = doBlock(v.Body.List)
		case *ast.SwitchStmt:
			for _, c := range v.Body.List {
				cc := c.(*ast.CaseClause)
				cc.Body = doBlock(cc.Body)
			}
		case *ast.TypeSwitchStmt:
			for _, c := range v.Body.List {
				cc := c.(*ast.CaseClause)
				cc.Body = doBlock(cc.Body)
			}
		case *ast.LabeledStmt:
			doStmt(v.Stmt)
		}
	}
	tmpN := 0
	shared := func(e ast.Expr) bool {
		switch e.(type) {
		case *ast.SelectorExpr, *ast.IndexExpr, *ast.StarExpr:
			return true
		}
		return false
	}
	opFor := map[token.Token]token.Token{token.ADD_ASSIGN: token.ADD, token.SUB_ASSIGN: token.SUB, token.MUL_ASSIGN: token.MUL, token.QUO_ASSIGN: token.QUO,
		token.REM_ASSIGN: token.REM, token.AND_ASSIGN: token.AND, token.OR_ASSIGN: token.OR, token.XOR_ASSIGN: token.XOR, token.SHL_ASSIGN: token.SHL,
		token.SHR_ASSIGN: token.SHR, token.AND_NOT_ASSIGN: token.AND_NOT}
	// split a read-modify-write of shared memory (x.f++, a[i] |= m) into load / yield / store:
	// that is what the hardware does, and it makes lost updates outside a lock observable.
	splitRMW := func(s ast.Stmt) []ast.Stmt {
		var lhs, rhs ast.Expr
		var op token.Token
		switch v := s.(type) {
		case *ast.IncDecStmt:
			lhs, rhs = v.X, &ast.BasicLit{Kind: token.INT, Value: "1"}
			op = token.ADD
			if v.Tok == token.DEC {
				op = token.SUB
			}
		case *ast.AssignStmt:
			o, ok := opFor[v.Tok]
			if !ok || len(v.Lhs) != 1 || len(v.Rhs) != 1 {
				return nil
			}
			lhs, rhs, op = v.Lhs[0], v.Rhs[0], o
		default:
			return nil
		}
		if !shared(lhs) {
			return nil
		}
		tmpN++
		tmp := ast.NewIdent(fmt.Sprintf("verifTmp%d", tmpN))
		load := &ast.AssignStmt{Lhs: []ast.Expr{tmp}, Tok: token.DEFINE, Rhs: []ast.Expr{lhs}}
		store := &ast.AssignStmt{Lhs: []ast.Expr{lhs}, Tok: token.ASSIGN, Rhs: []ast.Expr{&ast.BinaryExpr{X: tmp, Op: op, Y: &ast.ParenExpr{X: rhs}}}}
		return []ast.Stmt{load, mk(), store}
	}
	doBlock = func(list []ast.Stmt) []ast.Stmt {
		out := make([]ast.Stmt, 0, 2*len(list))
		for _, s := range list {
			out = append(out, mk())
			if parts := splitRMW(s); parts != nil {
				out = append(out, &ast.BlockStmt{List: parts})
				continue
			}
			doStmt(s)
			out = append(out, s)
		}
		return out
	}
	for _, d := range f.Decls {
		fd, ok := d.(*ast.FuncDecl)
		if !ok || fd.Body == nil {
			continue
		}
		name := fd.Name.Name
		if fd.Recv != nil && len(fd.Recv.List) == 1 {
			t := fd.Recv.List[0].Type
			if st, ok := t.(*ast.StarExpr); ok {
				t = st.X
			}
			if id, ok := t.(*ast.Ident); ok {
				name = id.Name + "." + name
			}
		}
		if len(want) > 0 && !want[name] {
			continue
		}
		fd.Body.List = doBlock(fd.Body.List)
	}
	// drop comments: positions are invalidated by the insertion (doc comments are irrelevant to behaviour)
	f.Comments = nil
	var buf bytes.Buffer
	if err := (&printer.Config{Mode: printer.UseSpaces | printer.TabIndent, Tabwidth: 8}).Fprint(&buf, fset, f); err != nil {
		return nil, 0, err
	}
	return buf.Bytes(), site, nil
}

func hashFiles(paths []string) string {
	h := sha256.New()
	sorted := append([]string(nil), paths...)
	sort.Strings(sorted)
	for _, p := range sorted {
		data, err := os.ReadFile(filepath.Join(repoRoot, p))
		if err != nil {
			fmt.Fprintf(h, "%s:missing\n", p)
			continue
		}
		fmt.Fprintf(h, "%s:%d\n", p, len(data))
		h.Write(data)
	}
	return fmt.Sprintf("%x", h.Sum(nil))[:16]
}

// buildEngine stamps the harness into an overlay and builds the engine's test binary from
// the CURRENT working tree of /repo.  mutant is "" or "<path relative to kernel>=<file>"
// (used only by the sensitivity self-test; replaces one source file through the overlay).
func buildEngine(name string, mutant string) (*built, error) {
	es, ok := engines[name]
	if !ok {
		return nil, fmt.Errorf("unknown engine %q", name)
	}
	base := filepath.Join(verifRoot, ".work")
	os.MkdirAll(base, 0755)
	work, err := os.MkdirTemp(base, name+"-")
	if err != nil {
		return nil, err
	}
	b := &built{engine: es, work: work}
	kroot := filepath.Join(repoRoot, "kernel")
	replace := map[string]string{}
	mutRel, mutFile := "", ""
	if mutant != "" {
		parts := strings.SplitN(mutant, "=", 2)
		if len(parts) != 2 {
			b.cleanup()
			return nil, fmt.Errorf("bad mutant spec %q", mutant)
		}
		mutRel, mutFile = parts[0], parts[1]
		replace[filepath.Join(kroot, mutRel)] = mutFile
	}
	n := 0
	put := func(dst string, data []byte) error {
		n++
		p := filepath.Join(work, fmt.Sprintf("f%03d_%s", n, filepath.Base(dst)))
		if err := os.WriteFile(p, data, 0644); err != nil {
			return err
		}
		replace[filepath.Join(kroot, dst)] = p
		return nil
	}
	for _, of := range es.Files {
		data, err := stamp(of.Src, of.Pkg)
		if err != nil {
			b.cleanup()
			return nil, err
		}
		if err := put(of.Dst, data); err != nil {
			b.cleanup()
			return nil, err
		}
	}
	for _, is := range es.Instr {
		src := filepath.Join(kroot, is.File)
		if mutRel == is.File {
			src = mutFile
		}
		data, sites, err := instrument(src, is.Funcs)
		if err != nil {
			b.cleanup()
			return nil, fmt.Errorf("instrumenting %s: %v", is.File, err)
		}
		b.instrSites += sites
		if err := put(is.File, data); err != nil {
			b.cleanup()
			return nil, err
		}
		if is.Hooks != "" {
			if err := put(is.Hooks, []byte(strings.Replace(hooksTemplate, "PKGNAME", is.Pkg, 1))); err != nil {
				b.cleanup()
				return nil, err
			}
		}
	}
	ov, _ := json.MarshalIndent(map[string]interface{}{"Replace": replace}, "", " ")
	ovPath := filepath.Join(work, "overlay.json")
	if err := os.WriteFile(ovPath, ov, 0644); err != nil {
		b.cleanup()
		return nil, err
	}
	b.bin = filepath.Join(work, name+".test")
	cmd := exec.Command("go", "test", "-c", "-tags", "verif", "-vet=off", "-overlay", ovPath, "-o", b.bin, "./"+es.PkgDir)
	cmd.Dir = kroot
	cmd.Env = goEnv()
	out, err := cmd.CombinedOutput()
	if err != nil {
		b.cleanup()
		return nil, fmt.Errorf("go test -c failed: %v\n%s", err, out)
	}
	b.srcHash = hashFiles(es.Anchors)
	return b, nil
}
