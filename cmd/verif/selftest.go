package main

import (
	"encoding/json"
	"fmt"
	"os"
	"os/exec"
	"path/filepath"
	"sort"
	"strconv"
	"strings"
	"time"
)

// selftest determinism <prop> [--runs N] : every sub-check is executed for N run indices in
// several fresh processes with different worker counts and GOMAXPROCS settings; the per-run
// digests (trace hash / number of choices / verdict) must be identical everywhere.
func cmdSelftest(args []string) int {
	if len(args) < 2 || args[0] != "determinism" {
		die(2, "usage: verif selftest determinism <property|all> [--runs N] [--seed S]")
	}
	runs := uint64(64)
	seed := uint64(1)
	var ids []string
	for i := 1; i < len(args); i++ {
		switch args[i] {
		case "--runs":
			i++
			n, _ := strconv.ParseUint(args[i], 10, 64)
			runs = n
		case "--seed":
			i++
			n, _ := strconv.ParseUint(args[i], 10, 64)
			seed = n
		default:
			ids = append(ids, args[i])
		}
	}
	if len(ids) == 1 && ids[0] == "all" {
		ids = propOrder
	}
	bad := 0
	summary := map[string]interface{}{}
	for _, id := range ids {
		ps := props[id]
		if ps == nil {
			die(2, "unknown property %s", id)
		}
		b, err := buildEngine(ps.Engine, "")
		if err != nil {
			fmt.Println("VERIF-INFRA build failed:", err)
			return 2
		}
		type cfg struct {
			workers int
			gmp     string
		}
		cfgs := []cfg{{1, "1"}, {16, "1"}, {4, "4"}, {16, "16"}, {1, "16"}, {7, "2"}}
		for _, sc := range ps.Subs {
			var ref map[string]string
			diverged := 0
			for ci, c := range cfgs {
				outDir := filepath.Join(b.work, fmt.Sprintf("det-%s-%d", sc.Name, ci))
				os.MkdirAll(outDir, 0755)
				o := checkOpts{prop: id, tier: "quick", seed: seed, workers: c.workers, scale: 1}
				os.Setenv("VERIF_GOMAXPROCS", c.gmp)
				s2 := sc
				s2.QuickRuns = runs
				s2.QuickMs = 600000
				results, dead := runWorkers(b, ps, s2, o, outDir, true, loadKnown())
				os.Unsetenv("VERIF_GOMAXPROCS")
				if len(dead) > 0 {
					fmt.Printf("determinism %s/%s cfg=%v: worker trouble: %v\n", id, sc.Name, c, dead)
					bad++
				}
				got := map[string]string{}
				for _, wr := range results {
					for k, v := range wr.Digests {
						got[k] = v
					}
				}
				if ref == nil {
					ref = got
					continue
				}
				var keys []string
				for k := range ref {
					keys = append(keys, k)
				}
				sort.Strings(keys)
				for _, k := range keys {
					if got[k] != ref[k] {
						diverged++
						if diverged <= 5 {
							fmt.Printf("DIVERGENCE %s/%s run=%s cfg=%v: %s vs %s\n", id, sc.Name, k, c, ref[k], got[k])
						}
					}
				}
				if len(got) != len(ref) {
					fmt.Printf("DIVERGENCE %s/%s cfg=%v: %d runs vs %d\n", id, sc.Name, c, len(ref), len(got))
					diverged++
				}
			}
			fmt.Printf("determinism %s/%s: %d run indices x %d process configurations, %d divergences\n", id, sc.Name, len(ref), len(cfgs), diverged)
			summary[id+"/"+sc.Name] = map[string]interface{}{"runs": len(ref), "configs": len(cfgs), "divergences": diverged}
			bad += diverged
		}
		b.cleanup()
	}
	data, _ := json.MarshalIndent(map[string]interface{}{"when": time.Now().UTC().Format(time.RFC3339), "seed": seed, "determinism": summary}, "", " ")
	os.MkdirAll(filepath.Join(verifRoot, "selftest"), 0755)
	os.WriteFile(filepath.Join(verifRoot, "selftest", "determinism-"+strings.Join(ids, "_")+".json"), data, 0644)
	if bad > 0 {
		return 1
	}
	return 0
}

// mutants [--dir mutants|seeded] [--only prefix] [--scale f]: sensitivity self-test.  Each entry is a
// directory with meta.json {property, tier, what} and patch.diff (git diff relative to the repository
// root).  The patch is applied to a scratch COPY of the current /repo tree (never to /repo), the
// property's check is run against that copy, and the copy is removed.  Evidence is not rewritten.
func cmdMutants(args []string) int {
	sub := "mutants"
	only := ""
	scale := 1.0
	tierOverride := ""
	for i := 0; i < len(args); i++ {
		switch args[i] {
		case "--only":
			i++
			only = args[i]
		case "--scale":
			i++
			scale, _ = strconv.ParseFloat(args[i], 64)
		case "--dir":
			i++
			sub = args[i]
		case "--tier":
			i++
			tierOverride = args[i]
		}
	}
	dir := filepath.Join(verifRoot, sub)
	entries, err := os.ReadDir(dir)
	if err != nil {
		die(2, "no %s directory: %v", sub, err)
	}
	missed := 0
	var rows []map[string]interface{}
	origRepo := repoRoot
	for _, e := range entries {
		if !e.IsDir() || (only != "" && !strings.HasPrefix(e.Name(), only)) {
			continue
		}
		var meta struct {
			Property string   `json:"property"`
			Also     []string `json:"also_checks"`
			Tier     string   `json:"tier"`
			What     string   `json:"what"`
			ExpectMissed bool `json:"expect_missed"`
			KnownMiss    string `json:"known_miss"` // a breaking change the machinery cannot reach, with the reason (DESIGN.md section 11)
		}
		data, err := os.ReadFile(filepath.Join(dir, e.Name(), "meta.json"))
		if err != nil || json.Unmarshal(data, &meta) != nil {
			fmt.Printf("mutant %s: bad meta.json\n", e.Name())
			continue
		}
		scratch, perr := scratchCopyWithPatch(origRepo, filepath.Join(dir, e.Name(), "patch.diff"))
		if perr != nil {
			fmt.Printf("mutant %-44s SKIP (patch does not apply to the current tree: %v)\n", e.Name(), perr)
			rows = append(rows, map[string]interface{}{"mutant": e.Name(), "property": meta.Property, "verdict": "patch-does-not-apply"})
			continue
		}
		tier := meta.Tier
		if tier == "" {
			tier = "quick"
		}
		if tierOverride != "" {
			tier = tierOverride
		}
		repoRoot = scratch
		os.Setenv("VERIF_NO_EVIDENCE", "1")
		t0 := time.Now()
		caughtBy := []string{}
		verdict := "MISSED"
		for _, pid := range append([]string{meta.Property}, meta.Also...) {
			if props[pid] == nil {
				fmt.Printf("mutant %s: property %s has no check\n", e.Name(), pid)
				continue
			}
			o := checkOpts{prop: pid, tier: tier, seed: 1, workers: 16, scale: scale, quiet: true}
			res := runCheck(props[pid], o)
			if res.exit == 1 {
				caughtBy = append(caughtBy, pid)
			} else if res.exit == 2 && verdict == "MISSED" {
				verdict = "INFRA"
			}
		}
		os.Unsetenv("VERIF_NO_EVIDENCE")
		repoRoot = origRepo
		os.RemoveAll(scratch)
		if len(caughtBy) > 0 {
			verdict = "caught by " + strings.Join(caughtBy, ",")
			if meta.ExpectMissed {
				verdict += " (UNEXPECTED: this change does not break the property; the check is over-strict)"
				missed++
			}
		} else if verdict == "INFRA" {
			// a check that could not run decides nothing - neither "caught" nor "not reported"
			missed++
		} else if meta.ExpectMissed {
			verdict = "not reported (as expected: the change does not break the property)"
		} else if meta.KnownMiss != "" && verdict == "MISSED" {
			verdict = "MISSED (known limit: " + meta.KnownMiss + ")"
		} else {
			missed++
		}
		fmt.Printf("mutant %-44s %s %s (%.0fs) %s\n", e.Name(), meta.Property, verdict, time.Since(t0).Seconds(), meta.What)
		rows = append(rows, map[string]interface{}{"mutant": e.Name(), "property": meta.Property, "verdict": verdict, "tier": tier, "what": meta.What})
	}
	data, _ := json.MarshalIndent(rows, "", " ")
	os.MkdirAll(filepath.Join(verifRoot, "selftest"), 0755)
	if only == "" {
		os.WriteFile(filepath.Join(verifRoot, "selftest", sub+".json"), data, 0644)
	}
	if missed > 0 {
		return 1
	}
	return 0
}

func scratchCopyWithPatch(repo, patch string) (string, error) {
	base := filepath.Join(verifRoot, ".work")
	os.MkdirAll(base, 0755)
	scratch, err := os.MkdirTemp(base, "scratch-")
	if err != nil {
		return "", err
	}
	cp := exec.Command("rsync", "-a", "--exclude", ".git", repo+"/", scratch+"/")
	if out, err := cp.CombinedOutput(); err != nil {
		os.RemoveAll(scratch)
		return "", fmt.Errorf("copy failed: %v %s", err, out)
	}
	ap := exec.Command("patch", "-p1", "--quiet", "--no-backup-if-mismatch", "-i", patch)
	ap.Dir = scratch
	if out, err := ap.CombinedOutput(); err != nil {
		os.RemoveAll(scratch)
		return "", fmt.Errorf("%v %s", err, strings.TrimSpace(string(out)))
	}
	return scratch, nil
}
