package main

import (
	"encoding/json"
	"fmt"
)

var notApplicable = []map[string]string{
	{"property_id": "C10", "reason": "multiboot decoding is a single call mapping one immutable block to callbacks: no state between calls, no schedule, clock, fault or second party; tag order/padding/entry size are input encodings (property-based testing/fuzzing territory, not simulation). DESIGN.md section 6."},
	{"property_id": "C11", "reason": "well-formed AML -> namespace is a pure function of the program text (multi-table loads are a longer input); grammar-based generation is property-based testing, there is no schedule, fault or history. DESIGN.md section 6."},
	{"property_id": "C12", "reason": "robustness of a pure parser to arbitrary bytes: corruptions are applied to an immutable blob before a single call, have no position in time, and the oracle (no crash/bounded/in-bounds) is the fuzzing oracle; the parser has no step seam. DESIGN.md section 6."},
	{"property_id": "C15", "reason": "kernel printf is a pure function of (format, arguments); allocation-freedom is an escape-analysis fact, not a schedule or fault. DESIGN.md section 6."},
	{"property_id": "C19", "reason": "each console-driver call is specified independently as a function of (geometry, arguments, framebuffer); the quantifier is every 32-bit argument = input space. Engine TTY exercises the real consoles only with the calls a terminal makes (C18). DESIGN.md section 6."},
	{"property_id": "C20", "reason": "kbuild redirect table is a pure function of a source tree plus Go map-iteration randomness that no seam can seed without rewriting the loop under test; repeating real runs is runtime observation, not simulation. DESIGN.md section 6."},
}

var levelText = map[string]string{}
var levelNote = map[string]string{}
var techniqueText = map[string]string{}
var designRef = map[string]string{}

func cmdManifest() {
	type check map[string]interface{}
	var checks []check
	for _, id := range propOrder {
		ps := props[id]
		checks = append(checks, check{
			"property_id":         id,
			"quick_cmd":           fmt.Sprintf("bin/verif check %s --tier quick", id),
			"thorough_cmd":        fmt.Sprintf("bin/verif check %s --tier thorough", id),
			"evidence_file":       fmt.Sprintf("/verif/evidence/%s.json", id),
			"replay_cmd_template": "bin/verif replay {path}",
			"engine":              ps.Engine,
			"level_claimed":       map[string]string{"category": ps.Level, "text": levelText[id], "design_ref": designRef[id]},
			"level_note":          levelNote[id],
			"technique":           techniqueText[id],
		})
	}
	var engs []map[string]interface{}
	seen := map[string]bool{}
	for _, id := range propOrder {
		e := props[id].Engine
		if seen[e] {
			continue
		}
		seen[e] = true
		var serves []string
		for _, id2 := range propOrder {
			if props[id2].Engine == e {
				serves = append(serves, id2)
			}
		}
		engs = append(engs, map[string]interface{}{"name": e, "path": "engines/" + engineDir[e], "serves_properties": serves, "kind_free_text": engineKind[e]})
	}
	m := map[string]interface{}{
		"version":   1,
		"setup_cmd": "cd /verif && GOFLAGS=-mod=mod GOPROXY=off GOSUMDB=off GOTOOLCHAIN=local go build -o bin/verif ./cmd/verif",
		"hooks": map[string]interface{}{
			"guard":            "verif",
			"enable":           "no source hooks in /repo: each check runs `go test -c -tags verif -overlay <generated overlay.json>` from /repo/kernel, which adds the in-package harness files (//go:build verif), tiny export shims in neighbouring packages and go/ast yield-instrumented copies of the current source files; with the tag off and no overlay the tree is exactly the committed one",
			"baseline_off_cmd": "/verif/scripts/baseline.sh /repo",
			"source_commits":   []string{},
			"add_only":         true,
		},
		"engines":        engs,
		"checks":         checks,
		"not_applicable": notApplicable,
		"notes":          "Deterministic simulation with fault injection. One integer (VERIF_SEED) decides every run; every violation is minimised, confirmed by replay in a fresh process and written to /verif/replays/. Genuine defects found and repaired in /repo ('fix:' commits) are listed in known_findings.json. See DESIGN.md.",
	}
	b, _ := json.MarshalIndent(m, "", " ")
	fmt.Println(string(b))
}
