package main

import (
	"encoding/json"
	"fmt"
	"os"
	"path/filepath"
	"sort"
	"time"

	"github.com/anishathalye/porcupine"
)

type c9Ev struct {
	Task  int    `json:"c"`
	Kind  int    `json:"k"`
	Frame uint64 `json:"f"`
	Res   int    `json:"r"`
	Call  uint64 `json:"call"`
	Ret   uint64 `json:"ret"`
}

type c9Hist struct {
	Run     uint64   `json:"run"`
	Seed    uint64   `json:"seed"`
	Choices []uint64 `json:"choices"`
	Free0   []uint64 `json:"free0"`
	Managed []uint64 `json:"managed_ranges"`
	Ops     []c9Ev   `json:"ops"`
}

// frame-set state encoded as a sorted string so that porcupine can compare states
func fsKey(m map[uint64]bool) string {
	ks := make([]uint64, 0, len(m))
	for k := range m {
		ks = append(ks, k)
	}
	sort.Slice(ks, func(i, j int) bool { return ks[i] < ks[j] })
	b, _ := json.Marshal(ks)
	return string(b)
}

func fsParse(s string) map[uint64]bool {
	var ks []uint64
	json.Unmarshal([]byte(s), &ks)
	m := make(map[uint64]bool, len(ks))
	for _, k := range ks {
		m[k] = true
	}
	return m
}

func c9Model(h *c9Hist) porcupine.Model {
	managed := func(f uint64) bool {
		for i := 0; i+1 < len(h.Managed); i += 2 {
			if f >= h.Managed[i] && f < h.Managed[i+1] {
				return true
			}
		}
		return false
	}
	init := map[uint64]bool{}
	for _, f := range h.Free0 {
		init[f] = true
	}
	initKey := fsKey(init)
	return porcupine.Model{
		Init: func() interface{} { return initKey },
		Step: func(state, input, output interface{}) (bool, interface{}) {
			e := input.(c9Ev)
			free := fsParse(state.(string))
			if e.Kind == 0 {
				if e.Res == 1 {
					return len(free) == 0, state
				}
				if !free[e.Frame] {
					return false, state
				}
				delete(free, e.Frame)
				return true, fsKey(free)
			}
			switch e.Res {
			case 0:
				if !managed(e.Frame) || free[e.Frame] {
					return false, state
				}
				free[e.Frame] = true
				return true, fsKey(free)
			case 2:
				return managed(e.Frame) && free[e.Frame], state
			case 3:
				return !managed(e.Frame), state
			}
			return false, state
		},
		Equal: func(a, b interface{}) bool { return a.(string) == b.(string) },
	}
}

func c9Check(h *c9Hist) porcupine.CheckResult {
	ops := make([]porcupine.Operation, 0, len(h.Ops))
	for _, e := range h.Ops {
		ops = append(ops, porcupine.Operation{ClientId: e.Task, Input: e, Call: int64(e.Call), Output: e.Res, Return: int64(e.Ret)})
	}
	return porcupine.CheckOperationsTimeout(c9Model(h), ops, 10*time.Second)
}

// postC09 runs porcupine over the histories the workers wrote (a sample of the non-trivial
// runs).  An Illegal verdict becomes a violation candidate; Unknown is counted, never reported.
func postC09(ps *propSpec, b *built, outDir string, o checkOpts, agg *aggregate) []candidate {
	files, _ := filepath.Glob(filepath.Join(outDir, "hist-*.json"))
	sort.Strings(files)
	checked, okN, unknown, illegal := 0, 0, 0, 0
	var cands []candidate
	deadline := time.Now().Add(2 * time.Minute)
	if o.tier == "thorough" {
		deadline = time.Now().Add(15 * time.Minute)
	}
	for _, f := range files {
		data, err := os.ReadFile(f)
		if err != nil {
			continue
		}
		var hs []c9Hist
		if json.Unmarshal(data, &hs) != nil {
			continue
		}
		for i := range hs {
			if time.Now().After(deadline) {
				break
			}
			h := &hs[i]
			checked++
			switch c9Check(h) {
			case porcupine.Ok:
				okN++
			case porcupine.Unknown:
				unknown++
			case porcupine.Illegal:
				illegal++
				rf := ReplayFile{Property: ps.ID, Check: "C09", Tier: o.tier, Seed: o.seed, Run: h.Run, Choices: h.Choices,
					Oracle: "C09/history-not-linearizable", Msg: "porcupine: the recorded allocate/free history is not linearizable against the frame-set model", Note: "found by the porcupine post-check"}
				p := filepath.Join(outDir, fmt.Sprintf("cand-porcupine-%d.json", illegal))
				bb, _ := json.MarshalIndent(rf, "", " ")
				os.WriteFile(p, bb, 0644)
				cands = append(cands, candidate{p, rf})
			}
		}
	}
	agg.extra["linearizability_porcupine"] = map[string]int{"histories_checked": checked, "ok": okN, "unknown_timeout": unknown, "illegal": illegal}
	return cands
}
