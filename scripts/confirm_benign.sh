#!/bin/bash
# usage: confirm_benign.sh <worktree> <outdir>
# Confirms a PROPERTY-PRESERVING change: patch applies, repository suite passes with it, the agent's regression
# test passes without and with the patch. Leaves the worktree clean.
export GOFLAGS=-mod=mod GOPROXY=off GOSUMDB=off GOTOOLCHAIN=local
WT=$1; OUT=$2
git -C "$WT" checkout -q -- . && git -C "$WT" clean -fdq
(bash "$OUT/demo.sh" "$WT" >"$OUT/confirm_clean.log" 2>&1); RC_CLEAN=$?
git -C "$WT" checkout -q -- . && git -C "$WT" clean -fdq
git -C "$WT" apply "$OUT/patch.diff" || { echo "PATCH DOES NOT APPLY"; exit 1; }
/verif/scripts/baseline.sh "$WT" | tail -1; RC_SUITE=${PIPESTATUS[0]}
(bash "$OUT/demo.sh" "$WT" >"$OUT/confirm_patched.log" 2>&1); RC_PATCHED=$?
LINES=$(grep -c '^[+-][^+-]' "$OUT/patch.diff")
git -C "$WT" checkout -q -- . && git -C "$WT" clean -fdq
echo "clean=$RC_CLEAN suite=$RC_SUITE patched=$RC_PATCHED changed_lines=$LINES"
if [ $RC_CLEAN -eq 0 ] && [ $RC_SUITE -eq 0 ] && [ $RC_PATCHED -eq 0 ]; then echo "CONFIRMED-BENIGN"; exit 0; else echo "NOT CONFIRMED"; exit 1; fi
