#!/usr/bin/env python3
"""mkwave.py <suffix> [ids...] - prepare one wave of independent property-breaking sub-agent tasks.

For every claimed property it creates a scratch git worktree of /repo at /tmp/wt/<id><suffix>, an output
directory /tmp/wt/<id><suffix>.out and a PROMPT.md in it.  The prompt contains ONLY the text of the property
(title, statement, quantifier), the generic task description and one-line descriptions of the changes earlier
waves already produced for that property (so that the new one is different) - nothing else from /verif.
"""
import json, os, subprocess, sys, glob

suffix = sys.argv[1]
ids = sys.argv[2:] or "C01 C02 C03 C04 C05 C06 C07 C08 C09 C13 C14 C16 C17 C18".split()
angle = os.environ.get("WAVE_ANGLE", "")
props = {}
for l in open('/verif/properties.jsonl'):
    d = json.loads(l)
    props[d['id']] = d

TEMPLATE = open('/verif/scripts/' + os.environ.get('WAVE_TEMPLATE', 'wave_prompt.md')).read()

for pid in ids:
    wt = f"/tmp/wt/{pid}{suffix}"
    out = wt + ".out"
    if not os.path.isdir(wt):
        subprocess.check_call(["git", "-C", "/repo", "worktree", "add", "--detach", wt, "HEAD"], stdout=subprocess.DEVNULL, stderr=subprocess.DEVNULL)
    os.makedirs(out, exist_ok=True)
    earlier = []
    src_dir = os.environ.get("WAVE_EARLIER_DIR", "seeded")
    for m in sorted(glob.glob(f"/verif/{src_dir}/{pid}-*/meta.json")):
        what = json.load(open(m))["what"]
        earlier.append(what.split(":")[0][:200] if len(what) > 200 else what)
    el = "; ".join(f"({i+1}) {w}" for i, w in enumerate(earlier))
    p = props[pid]
    txt = (TEMPLATE.replace("@WT@", wt).replace("@OUT@", out).replace("@TITLE@", p["title"])
           .replace("@STATEMENT@", p["statement"]).replace("@QUANT@", p["quantifier"]["text"])
           .replace("@EARLIER@", el).replace("@ANGLE@", angle))
    open(out + "/PROMPT.md", "w").write(txt)
    print(pid, wt, len(earlier), "earlier changes listed")
