#!/bin/bash
# usage: confirm_seeded.sh <worktree> <outdir>
# Confirms a sub-agent's change independently: (1) clean tree: demo passes; (2) patch applies;
# (3) repository suite passes with the patch; (4) demo fails with the patch. Leaves the worktree clean.
export GOFLAGS=-mod=mod GOPROXY=off GOSUMDB=off GOTOOLCHAIN=local
WT=$1; OUT=$2
git -C "$WT" checkout -q -- . && git -C "$WT" clean -fdq
echo "== demo on clean tree"; (bash "$OUT/demo.sh" "$WT" >"$OUT/confirm_clean.log" 2>&1); RC_CLEAN=$?; echo "rc=$RC_CLEAN"
git -C "$WT" checkout -q -- . && git -C "$WT" clean -fdq
echo "== apply"; git -C "$WT" apply "$OUT/patch.diff" || { echo "PATCH DOES NOT APPLY"; exit 1; }
echo "== suite with patch"; /verif/scripts/baseline.sh "$WT" | tail -3; RC_SUITE=${PIPESTATUS[0]}
echo "== demo with patch"; (bash "$OUT/demo.sh" "$WT" >"$OUT/confirm_patched.log" 2>&1); RC_PATCHED=$?; echo "rc=$RC_PATCHED"
git -C "$WT" checkout -q -- . && git -C "$WT" clean -fdq
if [ $RC_CLEAN -eq 0 ] && [ $RC_SUITE -eq 0 ] && [ $RC_PATCHED -ne 0 ]; then echo "CONFIRMED"; exit 0; else echo "NOT CONFIRMED clean=$RC_CLEAN suite=$RC_SUITE patched=$RC_PATCHED"; exit 1; fi
