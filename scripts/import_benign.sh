#!/bin/bash
# usage: import_benign.sh <propid> <name> <outdir> "<what>"
set -e
ID=$1; NAME=$2; OUT=$3; WHAT=$4
D=/verif/benign/$ID-$NAME
mkdir -p "$D"
cp "$OUT"/patch.diff "$OUT"/demo.sh "$OUT"/notes.md "$D"/ 2>/dev/null || true
cp "$OUT"/*_test.go "$D"/ 2>/dev/null || true
python3 - "$ID" "$D" "$WHAT" <<'PY'
import json,sys
id,d,what=sys.argv[1:4]
json.dump({"property":id,"tier":"quick","expect_missed":True,"what":what,
 "confirmed":"scripts/confirm_benign.sh: patch applies, 265/265 baseline tests pass with it, the agent's regression test passes with and without it",
 "origin":"independent sub-agent asked for a substantial change that PRESERVES the property"},open(d+"/meta.json","w"),indent=1)
PY
echo imported $D
