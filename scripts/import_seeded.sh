#!/bin/bash
# usage: import_seeded.sh <propid> <name> <outdir> "<needs>"
# Copies a CONFIRMED sub-agent change into /verif/seeded/<propid>-<name>/
set -e
ID=$1; NAME=$2; OUT=$3; NEEDS=$4
D=/verif/seeded/$ID-$NAME
mkdir -p "$D"
cp "$OUT"/patch.diff "$OUT"/demo.sh "$OUT"/notes.md "$D"/ 2>/dev/null || true
cp "$OUT"/*_test.go "$D"/ 2>/dev/null || true
python3 - "$ID" "$D" "$NEEDS" <<'PY'
import json,sys
id,d,needs=sys.argv[1:4]
json.dump({"property":id,"tier":"quick","what":needs,"needs_to_manifest":needs,
 "confirmed":"scripts/confirm_seeded.sh in a scratch worktree: demo passes on clean tree, patch applies, 265/265 baseline tests pass with the patch, demo fails with the patch",
 "origin":"independent sub-agent given only the property text"},open(d+"/meta.json","w"),indent=1)
PY
echo imported $D
