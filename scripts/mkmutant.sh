#!/bin/bash
# usage: mkmutant.sh <name> <prop> "<what>"   -- captures the current diff of worktree /tmp/wt/M as a mutant, then resets it
set -e
N=$1; P=$2; W=$3
D=/verif/mutants/$N
mkdir -p $D
git -C /tmp/wt/M diff > $D/patch.diff
[ -s $D/patch.diff ] || { echo "empty diff"; exit 1; }
python3 - "$P" "$W" "$D" <<'PY'
import json,sys
json.dump({"property":sys.argv[1],"tier":"quick","what":sys.argv[2]},open(sys.argv[3]+"/meta.json","w"),indent=1)
PY
git -C /tmp/wt/M checkout -q -- .
echo "mutant $N saved"
