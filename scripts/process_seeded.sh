#!/bin/bash
# usage: process_seeded.sh <propid> <suffix> <name> "<needs>" [also,checks]
# confirm in scratch worktree /tmp/wt/N (must be at /repo HEAD), import into /verif/seeded, run the checks against it
ID=$1; SUF=$2; NAME=$3; NEEDS=$4; ALSO=$5
OUT=/tmp/wt/${ID}${SUF}.out
[ -d /tmp/wt/N ] || git -C /repo worktree add -q --detach /tmp/wt/N HEAD
git -C /tmp/wt/N checkout -q --detach $(git -C /repo rev-parse HEAD) 2>/dev/null
R=$(/verif/scripts/confirm_seeded.sh /tmp/wt/N $OUT | tail -1)
echo "$ID$SUF: $R"
[ "$R" = "CONFIRMED" ] || exit 1
/verif/scripts/import_seeded.sh $ID $NAME $OUT "$NEEDS" >/dev/null
if [ -n "$ALSO" ]; then python3 - "$ID-$NAME" "$ALSO" <<'PY'
import json,sys
p='/verif/seeded/%s/meta.json'%sys.argv[1]; m=json.load(open(p)); m['also_checks']=sys.argv[2].split(','); json.dump(m,open(p,'w'),indent=1)
PY
fi
cd /verif && bin/verif mutants --dir seeded --only $ID-$NAME 2>&1 | grep -E "^mutant|violation:|INFRA" | cut -c1-170
