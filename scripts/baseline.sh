#!/bin/bash
# Runs the repository's own test suite with the verif guard OFF (no -tags verif, no overlay)
# and checks that every test named in BASELINE.json's stable_pass list passes.
# usage: baseline.sh [repo-dir]   (default /repo)
export GOFLAGS=-mod=mod GOPROXY=off GOSUMDB=off GOTOOLCHAIN=local
REPO=${1:-/repo}
OUT=$(mktemp -d)
trap 'rm -rf "$OUT"' EXIT
for m in kbuild kernel; do
  (cd "$REPO/$m" && go test -mod=mod -json -vet=off -count=1 -timeout 25m ./... ) >> "$OUT/run.json" 2>>"$OUT/stderr"
done
python3 - "$OUT/run.json" <<'PY'
import json,sys
passed=set()
failed=set()
for line in open(sys.argv[1]):
    line=line.strip()
    if not line.startswith('{'): continue
    try: e=json.loads(line)
    except Exception: continue
    if e.get('Test') and e.get('Action') in ('pass','fail'):
        k=e['Package']+'::'+e['Test']
        (passed if e['Action']=='pass' else failed).add(k)
base=json.load(open('/root/.vp/BASELINE.json'))['stable_pass']
missing=[t for t in base if t not in passed]
print("baseline: %d/%d stable tests pass; %d failed tests overall"%(len(base)-len(missing),len(base),len(failed)))
for t in missing: print("NOT PASSING:",t)
for t in sorted(failed): print("FAILED:",t)
sys.exit(1 if (missing or failed) else 0)
PY
