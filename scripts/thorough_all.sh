#!/bin/bash
# usage: thorough_all.sh <seed> [props...]   (run from a /verif checkout; builds bin/verif first)
export GOFLAGS=-mod=mod GOPROXY=off GOSUMDB=off GOTOOLCHAIN=local
SEED=${1:-1}; shift
go build -o bin/verif ./cmd/verif || exit 2
PROPS=${@:-$(bin/verif list | cut -d' ' -f1)}
rc=0
for p in $PROPS; do
  echo "=== $p thorough seed $SEED $(date +%T)"
  VERIF_SEED=$SEED bin/verif check $p --tier thorough 2>&1 | grep -E "VIOLATION|KNOWN-FINDING|WARNING|INFRA|thorough:|violation:|^  " | cut -c1-300
  r=${PIPESTATUS[0]}; echo "$p exit=$r"; [ $r -ne 0 ] && rc=1
done
exit $rc
