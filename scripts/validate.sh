#!/bin/bash
# validates MANIFEST.json and every evidence/*.json against the given schemas
python3-vt - <<'PY'
import json,jsonschema,glob,sys
ok=True
try:
    jsonschema.validate(json.load(open('/verif/MANIFEST.json')),json.load(open('/root/.vp/MANIFEST.schema.json'))); print('MANIFEST.json valid')
except Exception as e:
    ok=False; print('MANIFEST invalid:',str(e)[:400])
es=json.load(open('/root/.vp/EVIDENCE.schema.json'))
for f in sorted(glob.glob('/verif/evidence/*.json')):
    try:
        jsonschema.validate(json.load(open(f)),es); print(f,'valid')
    except Exception as e:
        ok=False; print(f,'INVALID:',str(e)[:400])
sys.exit(0 if ok else 1)
PY
