module verif

go 1.21

require github.com/anishathalye/porcupine v1.3.0
